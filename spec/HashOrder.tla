------------------------------ MODULE HashOrder ------------------------------
(***************************************************************************)
(* C13: the places where okane walks an unordered map into something a     *)
(* user can see.  The iteration order of a map is an unconstrained         *)
(* environment variable (a permutation of the keys - the "schedule" the    *)
(* property quantifies over; in the implementation it changes with every   *)
(* process because std's HashMap is seeded randomly).                      *)
(*                                                                         *)
(* Every site is modelled twice: as an order-dependent walk (first entry   *)
(* wins, last write wins, entries printed as met) and as the design the    *)
(* property requires (apply some fixed total order, or refuse).  TLC       *)
(* checks that the second is independent of the order, and characterises   *)
(* exactly for which inputs the first is not - those input classes are     *)
(* what the N-process runs of the real binary are fed with.                *)
(***************************************************************************)
EXTENDS Integers, Sequences, FiniteSets, TLC

CONSTANTS Keys,       \* map keys (commodities, rule fields, ...): positive integers, their order is the fixed total order of the design variants
          Vals        \* positive integers
Perms == {f \in [1..Cardinality(Keys) -> Keys] : \A a, b \in 1..Cardinality(Keys) : a # b => f[a] # f[b]}

VARIABLES m,      \* the map: [subset of Keys -> Vals]
          o1, o2  \* two iteration orders (two processes)
hvars == <<m, o1, o2>>

\* the entries of m as a walk in iteration order o
Walk(o) == SelectSeq(o, LAMBDA k : k \in DOMAIN m)
Sorted == SelectSeq([i \in 1..Cardinality(Keys) |-> CHOOSE k \in Keys : Cardinality({j \in Keys : j < k}) = i - 1], LAMBDA k : k \in DOMAIN m)

\* ---- site 1: printing a multi-commodity amount (balance, register totals, error text)
PrintAsMet(o) == [i \in 1..Len(Walk(o)) |-> <<Walk(o)[i], m[Walk(o)[i]]>>]
PrintSorted == [i \in 1..Len(Sorted) |-> <<Sorted[i], m[Sorted[i]]>>]
\* ---- site 2: the commodity of a sum where a single amount is required (cost, lot price)
PickFirst(o) == IF Walk(o) = <<>> THEN 0 ELSE Walk(o)[1]
RequireSingle == IF Cardinality(DOMAIN m) = 1 THEN CHOOSE k \in DOMAIN m : TRUE ELSE -1
\* ---- site 3: folding the capturing fields of one rule element: each present field sets the payee
FoldLastWins(o) == IF Walk(o) = <<>> THEN 0 ELSE m[Walk(o)[Len(Walk(o))]]
FoldSorted == IF Sorted = <<>> THEN 0 ELSE m[Sorted[Len(Sorted)]]
\* ---- site 4: relaxing equally ranked price chains: the first chain met keeps its rate
FirstWins(o) == IF Walk(o) = <<>> THEN 0 ELSE m[Walk(o)[1]]
FirstSorted == IF Sorted = <<>> THEN 0 ELSE m[Sorted[1]]
\* ---- site 5: validating every entry and giving up at the first invalid one (`for (k, v) in map { check(v)? }`): which
\*      entry the error names.  An entry is invalid when its value is the smallest of Vals.
Invalid(k) == \A v \in Vals : m[k] <= v
FirstInvalidIn(w) == LET bad == SelectSeq(w, Invalid) IN IF bad = <<>> THEN 0 ELSE bad[1]
FirstInvalid(o) == FirstInvalidIn(Walk(o))
FirstInvalidSorted == FirstInvalidIn(Sorted)

\* ---- site 6: deciding on "the first two entries" of a map that may hold irrelevant entries (a residual with commodities
\*      that cancelled to zero next to the two of an implied exchange).  An entry is irrelevant when its value is the
\*      smallest of Vals (it stands for zero).  A guard `exactly two entries` makes taking the first two safe; a guard
\*      `exactly two relevant entries` does not: which two are taken then depends on the walk.
Relevant == {k \in DOMAIN m : ~Invalid(k)}
FirstTwo(o) == IF Cardinality(Relevant) # 2 THEN {} ELSE {Walk(o)[1], Walk(o)[2]}
TwoSelected == IF Cardinality(Relevant) # 2 THEN {} ELSE Relevant

Init == /\ \E D \in SUBSET Keys : m \in [D -> Vals]
        /\ o1 \in Perms /\ o2 \in Perms
Next == UNCHANGED hvars
Spec == Init /\ [][Next]_hvars

\* the design variants never depend on the order (they do not even mention it): what TLC checks is
\* that they are well defined for every map, and the exact sensitivity classes of the walks
SensitivePrint == PrintAsMet(o1) # PrintAsMet(o2)
SensitivePick == PickFirst(o1) # PickFirst(o2)
SensitiveFold == FoldLastWins(o1) # FoldLastWins(o2)
SensitiveFirst == FirstWins(o1) # FirstWins(o2)
SensitiveInvalid == FirstInvalid(o1) # FirstInvalid(o2)
SensitiveTwo == FirstTwo(o1) # FirstTwo(o2)

\* a walk can differ between two processes only for these inputs ...
ClassPrint == SensitivePrint => Cardinality(DOMAIN m) >= 2
ClassPick == SensitivePick => Cardinality(DOMAIN m) >= 2
ClassFold == SensitiveFold => \E a, b \in DOMAIN m : a # b /\ m[a] # m[b]
ClassFirst == SensitiveFirst => \E a, b \in DOMAIN m : a # b /\ m[a] # m[b]
ClassInvalid == SensitiveInvalid => \E a, b \in DOMAIN m : a # b /\ Invalid(a) /\ Invalid(b)
ClassTwo == SensitiveTwo => Cardinality(Relevant) = 2 /\ Cardinality(DOMAIN m) >= 3
\* ... and for every such input some pair of orders does differ (checked as: the two orders "as met" vs "reversed")
Reverse(o) == [i \in 1..Len(o) |-> o[Len(o) + 1 - i]]
WitnessPrint == (o2 = Reverse(o1) /\ Cardinality(DOMAIN m) >= 2) => SensitivePrint
WitnessPick == (o2 = Reverse(o1) /\ Cardinality(DOMAIN m) >= 2) => SensitivePick
WitnessFold == (o2 = Reverse(o1) /\ Cardinality(DOMAIN m) >= 2 /\ m[Walk(o1)[1]] # m[Walk(o1)[Len(Walk(o1))]]) => SensitiveFold
WitnessInvalid == (o2 = Reverse(o1) /\ \E a, b \in DOMAIN m : a # b /\ Invalid(a) /\ Invalid(b)) => SensitiveInvalid
WitnessTwo == (o2 = Reverse(o1) /\ Cardinality(Relevant) = 2 /\ Cardinality(DOMAIN m) >= 3 /\ Invalid(Walk(o1)[1])) => SensitiveTwo
\* the design variants are functions of the map alone
DesignWellDefined == /\ Len(PrintSorted) = Cardinality(DOMAIN m)
                     /\ \A i, j \in 1..Len(Sorted) : i < j => Sorted[i] < Sorted[j]
                     /\ (RequireSingle # -1 => Cardinality(DOMAIN m) = 1)
                     /\ (TwoSelected # {} => TwoSelected = Relevant /\ Cardinality(TwoSelected) = 2)

\* the order-sensitive input classes, one record per map shape (emitted once per shape: o1 = o2 = sorted order)
Identity == [i \in 1..Cardinality(Keys) |-> CHOOSE k \in Keys : Cardinality({j \in Keys : j < k}) = i - 1]
Shape == [n |-> Cardinality(DOMAIN m), distinct |-> Cardinality({m[k] : k \in DOMAIN m}), invalid |-> Cardinality({k \in DOMAIN m : Invalid(k)})]
EmitClass == (o1 = Identity /\ o2 = Reverse(o1)) =>
               PrintT(<<"CLASS", Shape.n, Shape.distinct, SensitivePrint, SensitivePick, SensitiveFold, SensitiveFirst>>)
               /\ PrintT(<<"CLASS5", Shape.n, Shape.invalid, SensitiveInvalid>>)
               /\ PrintT(<<"CLASS6", Shape.n, Shape.invalid, Cardinality(Relevant) = 2 /\ Cardinality(DOMAIN m) >= 3>>)
=============================================================================
