------------------------------ MODULE Golden ------------------------------
(***************************************************************************)
(* The golden-file helper (okane_golden::Golden) composed with its         *)
(* environment: the file on disk and the UPDATE_GOLDEN variable.           *)
(*                                                                         *)
(* Contents are sequences of one-character tokens; "CR" and "LF" stand for *)
(* the two line-ending bytes (token names, so that the JSON interchange    *)
(* never depends on escape handling).                                      *)
(***************************************************************************)
EXTENDS Integers, Sequences, FiniteSets, TLC

CONSTANTS Chars,        \* alphabet of content tokens, e.g. {"a","E","CR","LF"}
          MaxLen        \* maximal content length

Absent == <<"ABSENT">>
NoInstance == <<"NONE">>

VARIABLES file,     \* Absent or a content (sequence over Chars)
          env,      \* "unset" | "empty" | "set"   (UPDATE_GOLDEN)
          loaded,   \* NoInstance or the content the live Golden instance holds
          last      \* record describing the last step (action label + outcome)

vars == <<file, env, loaded, last>>

SeqsUpTo(S, n) == UNION {[1..m -> S] : m \in 0..n}
Content == SeqsUpTo(Chars, MaxLen)

\* CRLF -> LF, exactly what `str::replace("\r\n", "\n")` does (left to right,
\* non-overlapping; a lone CR stays).
RECURSIVE Normalise(_)
Normalise(s) ==
  IF s = <<>> THEN <<>>
  ELSE IF Len(s) >= 2 /\ s[1] = "CR" /\ s[2] = "LF"
       THEN <<"LF">> \o Normalise(SubSeq(s, 3, Len(s)))
       ELSE <<s[1]>> \o Normalise(Tail(s))

Init == /\ file \in {Absent} \cup Content
        /\ env \in {"unset", "empty", "set"}
        /\ loaded = NoInstance
        /\ last = [op |-> "init"]

\* ---------------- environment ----------------
SetEnv(v) == /\ env' = v /\ UNCHANGED <<file, loaded>>
             /\ last' = [op |-> "setenv", v |-> v]
ExternalWrite(c) == /\ file' = c /\ UNCHANGED <<env, loaded>>
                    /\ last' = [op |-> "write", c |-> c]
ExternalDelete == /\ file' = Absent /\ UNCHANGED <<env, loaded>>
                  /\ last' = [op |-> "delete"]

\* ---------------- the helper ----------------
\* Golden::new: reads the file; a missing file is an error unless updating.
\* It never creates or modifies the file.
GNew ==
  /\ UNCHANGED <<file, env>>
  /\ IF file = Absent
     THEN IF env = "set"
          THEN loaded' = <<>> /\ last' = [op |-> "new", res |-> "ok"]
          ELSE loaded' = loaded /\ last' = [op |-> "new", res |-> "err"]
     ELSE loaded' = Normalise(file) /\ last' = [op |-> "new", res |-> "ok"]

\* The verdicts the property allows for assert(got) outside update mode.
\* When the in-memory copy and the file agree the verdict is forced; when the
\* file was changed or removed behind the helper's back the statement
\* ("equals the golden file's content") can be read either way, and the
\* specification is no stricter than the statement.
AllowedVerdicts(got) ==
  LET v(b) == IF b THEN "pass" ELSE "panic" IN
  {v(got = loaded)} \cup (IF file = Absent THEN {} ELSE {v(got = Normalise(file))})

GAssert(got) ==
  /\ loaded # NoInstance
  /\ UNCHANGED <<env, loaded>>
  /\ IF env = "set"
     THEN /\ file' = got
          /\ last' = [op |-> "assert", got |-> got, res |-> {"pass"}]
     ELSE /\ file' = file
          /\ last' = [op |-> "assert", got |-> got, res |-> AllowedVerdicts(got)]

Next == \/ \E v \in {"unset", "empty", "set"} : SetEnv(v)
        \/ \E c \in Content : ExternalWrite(c)
        \/ ExternalDelete
        \/ GNew
        \/ \E g \in Content : GAssert(g)

Spec == Init /\ [][Next]_vars

\* ---------------- properties (C20) ----------------
HelperStep == last'.op \in {"new", "assert"}

\* Unless UPDATE_GOLDEN is non-empty the helper never creates or modifies a file.
NeverWritesUnlessTold == [][(HelperStep /\ env # "set") => file' = file]_vars

\* ... and a missing golden file is an error.
MissingIsError == [][(last'.op = "new" /\ file = Absent /\ env # "set") => last'.res = "err"]_vars

\* When it is set, the file afterwards contains exactly `got`.
UpdateWritesExactly == [][(last'.op = "assert" /\ env = "set") => file' = last'.got /\ last'.res = {"pass"}]_vars

\* assert succeeds exactly when got equals the (normalised) golden content,
\* whenever file and in-memory copy agree (the unambiguous case).
AssertFaithful ==
  [][(last'.op = "assert" /\ env # "set" /\ file # Absent /\ loaded = Normalise(file))
       => last'.res = {IF last'.got = Normalise(file) THEN "pass" ELSE "panic"}]_vars

\* new never touches the file, even in update mode.
NewNeverWrites == [][last'.op = "new" => file' = file]_vars

TypeOK == /\ file \in {Absent} \cup Content
          /\ env \in {"unset", "empty", "set"}
          /\ loaded \in {NoInstance} \cup SeqsUpTo(Chars, MaxLen)
=============================================================================
