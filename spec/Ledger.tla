------------------------------- MODULE Ledger -------------------------------
(***************************************************************************)
(* okane's book-keeping as a state machine (report::process,               *)
(* add_transaction, process_posting, check_balance, Balance, InternStore,  *)
(* CommodityStore, the price events sent to PriceRepositoryBuilder).       *)
(*                                                                         *)
(* Entries arrive in the order the loader delivers them; every action is   *)
(* parameterised by the piece of input it consumes (a declaration, a date, *)
(* a posting) and appends it to `input`, the history of what was read.     *)
(* Model-checking modules choose the parameters from bounded catalogues,   *)
(* the trace specification takes them from recorded events.                *)
(* One action per critical section of the code:                            *)
(*   DeclAccount DeclCommodity BeginTxn PostRegular PostAssign PostOmitted *)
(*   CommitDeduce CommitBalanced CommitImplied RejectUnbalanced            *)
(*   RejectPair Finish                                                     *)
(*                                                                         *)
(* This is the INTENDED design, i.e. what properties C01-C04 and C12 ask   *)
(* for.  Where the property leaves a choice the specification has one      *)
(* (CommitImplied / RejectPair).                                           *)
(*                                                                         *)
(* Entry shapes (records; unused fields hold neutral values):              *)
(*   [k |-> "txn",  date, posts]                                           *)
(*   [k |-> "acct", name, aliases]                                         *)
(*   [k |-> "cmdt", name, aliases, prec]      prec = -1: no format line    *)
(* Posting: [acct, kind, q, cost, lot, asrt]                               *)
(*   kind  "reg" (amount q, optional asrt) | "assign" (asrt only) | "omit" *)
(*   q, asrt : [c, v]  quantity; c = "" is a bare number; NoQ = absent     *)
(*   cost, lot : [k, c, v]  k in {"none","rate","total"}                   *)
(***************************************************************************)
EXTENDS Amt, Sequences, TLC

VARIABLES input,    \* the entries read so far (history; the last one may be a transaction in flight)
          ei,       \* index of the entry being processed (= number of entries begun)
          pi,       \* 0: between entries; else index of the next posting of the transaction in flight
          acct,     \* intern table of accounts:  name -> [canon, to]
          cmdt,     \* intern table of commodities
          prec,     \* canonical commodity -> declared decimal places
          bal,      \* canonical account -> Amt, zero entries stripped
          cur,      \* transaction in flight
          reg,      \* committed transactions
          prices,   \* price events sent to the price repository, in order
          ghost,    \* logs used only by invariants / emission
          status    \* [s |-> "run"|"ok"|"rej", ...]

vars == <<input, ei, pi, acct, cmdt, prec, bal, cur, reg, prices, ghost, status>>

NoQ == [c |-> "~", v |-> DZero]
NoEx == [k |-> "none", c |-> "~", v |-> DZero]
NoCur == [date |-> 0, posts |-> <<>>, res |-> AmtEmpty, unfilled |-> 0, deferred |-> <<>>]
EmptyMap == [x \in {} |-> 0]

Running == status.s = "run"

\* ------------------------------------------------------------ intern tables
Known(t, n) == n \in DOMAIN t
IsCanon(t, n) == Known(t, n) /\ t[n].canon
IsAlias(t, n) == Known(t, n) /\ ~t[n].canon
Resolve(t, n) == IF t[n].canon THEN n ELSE t[n].to
\* InternStore::ensure for a set of names: unknown names become canonical
EnsureAll(t, S) == [n \in DOMAIN t \cup S |-> IF n \in DOMAIN t THEN t[n] ELSE [canon |-> TRUE, to |-> n]]
Canonicals(t) == {n \in DOMAIN t : t[n].canon}
\* InternStore::resolve, the read-only lookup behind ReportContext::account / ::commodity, the register's
\* account filter, `-X <commodity>` and the names inside an evaluated expression: a known name answers with
\* its canonical name, an unknown one with nothing (NoName); it never registers anything
NoName == "~"
Lookup(t, n) == IF Known(t, n) THEN Resolve(t, n) ELSE NoName

\* insert_canonical(name) then insert_alias(a, name) for each alias, in order.
\* Returns [ok, t].  An alias that is already an alias (of anything) is left as is.
RECURSIVE InsertAliases(_, _, _)
InsertAliases(t, as, name) ==
  IF as = <<>> THEN [ok |-> TRUE, t |-> t]
  ELSE LET a == Head(as) IN
       IF IsCanon(t, a) THEN [ok |-> FALSE, t |-> t]
       ELSE IF IsAlias(t, a) THEN InsertAliases(t, Tail(as), name)
       ELSE InsertAliases([n \in DOMAIN t \cup {a} |-> IF n = a THEN [canon |-> FALSE, to |-> name] ELSE t[n]],
                          Tail(as), name)
Declare(t, name, as) ==
  IF IsAlias(t, name) THEN [ok |-> FALSE, t |-> t]
  ELSE InsertAliases(EnsureAll(t, {name}), as, name)

\* ------------------------------------------------------------ evaluation
\* commodity names a posting mentions (each is `ensure`d while evaluating)
QNames(q) == IF q = NoQ \/ q.c = "" THEN {} ELSE {q.c}
ExNames(x) == IF x.k = "none" \/ x.c = "" THEN {} ELSE {x.c}
PostNames(p) == QNames(p.q) \cup ExNames(p.cost) \cup ExNames(p.lot) \cup QNames(p.asrt)

\* a written quantity as an Amt under table t: bare 0 is the empty amount
QAmt(t, q) == IF q.c = "" THEN AmtEmpty ELSE AmtOf(Resolve(t, q.c), q.v)
QBad(q) == q # NoQ /\ q.c = "" /\ ~DecIsZero(q.v)       \* non-zero bare number where an amount is needed

ExFaults(t, q, x) ==
  IF x.k = "none" THEN {}
  ELSE (IF x.c = "" THEN {"rate_not_amount"} ELSE {})
       \cup (IF DecIsZero(x.v) THEN {"zero_rate"} ELSE {})
       \cup (IF q.c = "" THEN {"zero_amount_with_exchange"} ELSE {})
       \cup (IF q.c # "" /\ x.c # "" /\ Resolve(t, q.c) = Resolve(t, x.c) THEN {"same_commodity"} ELSE {})

\* Exchange::exchange: rate * quantity; |total| with the sign of the quantity
Exch(t, q, x) ==
  IF x.k = "rate" THEN AmtOf(Resolve(t, x.c), DecMul(x.v, q.v))
  ELSE AmtOf(Resolve(t, x.c), IF DecSign(q.v) < 0 THEN DecNeg(DecAbs(x.v)) ELSE DecAbs(x.v))

\* value of a posting inside its transaction: lot price, else cost, else the amount
BalancingValue(t, p) ==
  IF p.lot.k # "none" THEN Exch(t, p.q, p.lot)
  ELSE IF p.cost.k # "none" THEN Exch(t, p.q, p.cost)
  ELSE QAmt(t, p.q)

\* price event of a posting: cost, else lot; none when the quantity is zero
\* (a zero quantity defines no rate).
PostPrice(t, date, p) ==
  LET x == IF p.cost.k # "none" THEN p.cost ELSE p.lot IN
  IF x.k = "none" \/ DecIsZero(p.q.v) THEN <<>>
  ELSE IF x.k = "rate"
       THEN <<[src |-> "ledger", date |-> date, xc |-> Resolve(t, p.q.c), xv |-> DOne,
               yc |-> Resolve(t, x.c), yv |-> x.v]>>
       ELSE <<[src |-> "ledger", date |-> date, xc |-> Resolve(t, p.q.c), xv |-> DecAbs(p.q.v),
               yc |-> Resolve(t, x.c), yv |-> x.v]>>

\* Amount::assert_balance: `= 0` needs an empty account, `= v C` compares C only
Holds(b, t, q) == IF q.c = "" THEN AllZero(b) ELSE AmtGet(b, Resolve(t, q.c)) = q.v

BalOf(b, a) == IF a \in DOMAIN b THEN b[a] ELSE AmtEmpty
SetBal(b, a, v) == [x \in DOMAIN b \cup {a} |-> IF x = a THEN v ELSE b[x]]

\* ------------------------------------------------------------ initial state
Init ==
  /\ input = <<>>
  /\ ei = 0 /\ pi = 0
  /\ acct = EmptyMap /\ cmdt = EmptyMap /\ prec = EmptyMap /\ bal = EmptyMap
  /\ cur = NoCur /\ reg = <<>> /\ prices = <<>>
  /\ ghost = [asserts |-> <<>>, assigns |-> <<>>, lenient |-> {}, flat |-> 0, deferred |-> FALSE]
  /\ status = [s |-> "run"]

\* `in` is the history including the offending piece, `e` the entry it belongs to
RejectAt(in, e, post, kinds, info) ==
  /\ status' = [s |-> "rej", entry |-> e, post |-> post, kinds |-> kinds, info |-> info]
  /\ input' = in
  /\ UNCHANGED <<ei, pi, acct, cmdt, prec, bal, cur, reg, prices, ghost>>
Reject(in, e, kinds, info) == RejectAt(in, e, pi, kinds, info)

EndEntry == ei' = ei /\ pi' = 0
Between == Running /\ pi = 0

\* ------------------------------------------------------------ declarations
DeclAccount(e) ==
  /\ Between /\ e.k = "acct"
  /\ LET r == Declare(acct, e.name, e.aliases) IN
     IF r.ok THEN /\ acct' = r.t /\ input' = Append(input, e) /\ ei' = ei + 1
                  /\ UNCHANGED <<pi, cmdt, prec, bal, cur, reg, prices, ghost, status>>
     ELSE Reject(Append(input, e), ei + 1, {"invalid_account"}, <<>>)

DeclCommodity(e) ==
  /\ Between /\ e.k = "cmdt"
  /\ LET r == Declare(cmdt, e.name, e.aliases) IN
     IF r.ok THEN /\ cmdt' = r.t /\ input' = Append(input, e) /\ ei' = ei + 1
                  /\ prec' = IF e.prec >= 0
                             THEN [x \in DOMAIN prec \cup {e.name} |-> IF x = e.name THEN e.prec ELSE prec[x]]
                             ELSE prec
                  /\ UNCHANGED <<pi, acct, bal, cur, reg, prices, ghost, status>>
     ELSE Reject(Append(input, e), ei + 1, {"invalid_commodity"}, <<>>)

\* ------------------------------------------------------------ transactions
BeginTxn(date) ==
  /\ Between
  /\ pi' = 1 /\ ei' = ei + 1
  /\ input' = Append(input, [k |-> "txn", date |-> date, posts |-> <<>>])
  /\ cur' = [NoCur EXCEPT !.date = date]
  /\ UNCHANGED <<acct, cmdt, prec, bal, reg, prices, ghost, status>>

InTxn == Running /\ pi >= 1
\* the history with posting p appended to the transaction in flight
WithPost(p) == [input EXCEPT ![ei].posts = Append(@, p)]

\* is the account of the omitted posting of this transaction `a`?
AfterOmittedOn(a) == cur.unfilled # 0 /\ cur.posts[cur.unfilled].acct = a

PostRegular(p) ==
  /\ InTxn /\ p.kind = "reg"
  /\ LET at == EnsureAll(acct, {p.acct})
         ct == EnsureAll(cmdt, PostNames(p))
         a == Resolve(at, p.acct)
         faults == (IF QBad(p.q) \/ QBad(p.asrt) THEN {"amount_required"} ELSE {})
                   \cup ExFaults(ct, p.q, p.cost) \cup ExFaults(ct, p.q, p.lot)
     IN IF faults # {} THEN Reject(WithPost(p), ei, faults, <<>>)
        ELSE LET amt == QAmt(ct, p.q)
                 nb == Strip(AmtAdd(BalOf(bal, a), amt))          \* Balance::add_posting_amount
                 hasA == p.asrt # NoQ
                 defer == hasA /\ AfterOmittedOn(a)               \* decided at commit, see CommitDeduce
             IN IF hasA /\ ~defer /\ ~Holds(nb, ct, p.asrt)
                THEN Reject(WithPost(p), ei, {"assertion"}, nb)
                ELSE /\ acct' = at /\ cmdt' = ct /\ input' = WithPost(p)
                     /\ bal' = SetBal(bal, a, nb)
                     /\ cur' = [cur EXCEPT !.posts = Append(@, [acct |-> a, amt |-> amt, kind |-> "reg",
                                                               bv |-> BalancingValue(ct, p)]),
                                           !.res = AmtAdd(@, BalancingValue(ct, p)),   \* zero entries retained
                                           !.deferred = IF defer THEN Append(@, [acct |-> a, q |-> p.asrt, at |-> nb, post |-> Len(cur.posts) + 1]) ELSE @]
                     /\ prices' = prices \o PostPrice(ct, cur.date, p)
                     /\ ghost' = [ghost EXCEPT !.flat = @ + 1, !.deferred = @ \/ defer,
                                               !.asserts = IF hasA THEN Append(@, [pos |-> ghost.flat + 1, acct |-> a, q |-> p.asrt]) ELSE @]
                     /\ pi' = pi + 1
                     /\ UNCHANGED <<ei, prec, reg, status>>

\* `Account  = X` without amount: the amount is what moves the account to X
PostAssign(p) ==
  /\ InTxn /\ p.kind = "assign"
  /\ LET at == EnsureAll(acct, {p.acct})
         ct == EnsureAll(cmdt, PostNames(p))
         a == Resolve(at, p.acct)
         old == BalOf(bal, a)
     IN IF QBad(p.asrt) THEN Reject(WithPost(p), ei, {"amount_required"}, <<>>)
        ELSE IF p.asrt.c = "" /\ Cardinality(DOMAIN old) > 1 THEN Reject(WithPost(p), ei, {"multi_commodity_assign"}, old)
        ELSE LET c == Resolve(ct, p.asrt.c)
                 amt == IF p.asrt.c = "" THEN AmtNeg(old)
                        ELSE AmtOf(c, DecSub(p.asrt.v, AmtGet(old, c)))
                 nb == IF p.asrt.c = "" THEN AmtEmpty ELSE Strip(AmtSet(old, c, p.asrt.v))
             IN /\ acct' = at /\ cmdt' = ct /\ input' = WithPost(p)
                /\ bal' = SetBal(bal, a, nb)
                /\ cur' = [cur EXCEPT !.posts = Append(@, [acct |-> a, amt |-> amt, kind |-> "assign", bv |-> amt]),
                                      !.res = AmtAdd(@, amt)]
                /\ ghost' = [ghost EXCEPT !.flat = @ + 1,
                                          !.assigns = Append(@, [pos |-> ghost.flat + 1, acct |-> a, q |-> p.asrt,
                                                                 afterOmit |-> AfterOmittedOn(a)])]
                /\ pi' = pi + 1
                /\ UNCHANGED <<ei, prec, reg, prices, status>>

PostOmitted(p) ==
  /\ InTxn /\ p.kind = "omit"
  /\ LET at == EnsureAll(acct, {p.acct})
         a == Resolve(at, p.acct)
     IN IF cur.unfilled # 0 THEN Reject(WithPost(p), ei, {"undeducible"}, <<>>)
        ELSE /\ acct' = at /\ input' = WithPost(p)
             /\ cur' = [cur EXCEPT !.posts = Append(@, [acct |-> a, amt |-> AmtEmpty, kind |-> "omit", bv |-> AmtEmpty]),
                                   !.unfilled = pi]
             /\ ghost' = [ghost EXCEPT !.flat = @ + 1]
             /\ pi' = pi + 1
             /\ UNCHANGED <<ei, cmdt, prec, bal, reg, prices, status>>

\* end of the transaction's text: at least one posting was read
AtCommit == InTxn /\ pi >= 2
Rounded == AmtRound(cur.res, prec)

Commit(posts) ==
  /\ reg' = Append(reg, [date |-> cur.date, posts |-> posts])
  /\ cur' = NoCur
  /\ EndEntry

\* one omitted posting absorbs the remainder, in as many commodities as needed;
\* assertions that were waiting for it are decided now.
CommitDeduce ==
  /\ AtCommit /\ cur.unfilled # 0
  /\ LET d == AmtNeg(cur.res)
         a == cur.posts[cur.unfilled].acct
         nb == Strip(AmtAdd(BalOf(bal, a), d))
         \* a deferred assertion is judged on the balance at its own position plus the deduced amount
         bad == {i \in 1..Len(cur.deferred) : ~Holds(Strip(AmtAdd(cur.deferred[i].at, d)), cmdt, cur.deferred[i].q)}
     IN IF bad # {}
        THEN \* the first one in file order is reported, at its own posting, with the balance it was judged on
             LET i == CHOOSE i \in bad : \A j \in bad : i <= j
             IN RejectAt(input, ei, cur.deferred[i].post, {"assertion"}, Strip(AmtAdd(cur.deferred[i].at, d)))
        ELSE /\ bal' = SetBal(bal, a, nb)
             /\ Commit([cur.posts EXCEPT ![cur.unfilled].amt = d])
             /\ UNCHANGED <<input, acct, cmdt, prec, prices, ghost, status>>

CommitBalanced ==
  /\ AtCommit /\ cur.unfilled = 0 /\ AllZero(Rounded)
  /\ Commit(cur.posts)
  /\ UNCHANGED <<input, acct, cmdt, prec, bal, prices, ghost, status>>

\* implied exchange: exactly two commodities left, opposite signs
CommitImplied ==
  /\ AtCommit /\ cur.unfilled = 0 /\ OppositePair(Rounded)
  /\ LET nz == NonZeroDom(Rounded)
         c1 == CHOOSE c \in nz : TRUE                       \* orientation is immaterial
         c2 == CHOOSE c \in nz : c # c1
     IN prices' = Append(prices, [src |-> "ledger", date |-> cur.date, xc |-> c1, xv |-> DecAbs(Rounded[c1]),
                                  yc |-> c2, yv |-> DecAbs(Rounded[c2])])
  /\ Commit(cur.posts)
  /\ ghost' = [ghost EXCEPT !.lenient = @ \cup {ei}]
  /\ UNCHANGED <<input, acct, cmdt, prec, bal, status>>

\* The property permits (does not require) acceptance of an implied exchange.
RejectPair ==
  /\ AtCommit /\ cur.unfilled = 0 /\ OppositePair(Rounded)
  /\ Reject(input, ei, {"pair_not_accepted"}, Rounded)

RejectUnbalanced ==
  /\ AtCommit /\ cur.unfilled = 0 /\ ~AllZero(Rounded) /\ ~OppositePair(Rounded)
  /\ Reject(input, ei, {"unbalanced"}, Rounded)

Finish ==
  /\ Between
  /\ status' = [s |-> "ok"]
  /\ UNCHANGED <<input, ei, pi, acct, cmdt, prec, bal, cur, reg, prices, ghost>>

Post(p) == PostRegular(p) \/ PostAssign(p) \/ PostOmitted(p)
CommitOrReject == CommitDeduce \/ CommitBalanced \/ CommitImplied \/ RejectPair \/ RejectUnbalanced

\* ================================================================ properties
\* All of them are written against reg / ghost, never against how bal was computed.

RECURSIVE SumBV(_, _)
SumBV(posts, i) == IF i = 0 THEN AmtEmpty ELSE AmtAdd(SumBV(posts, i - 1), posts[i].bv)

HasOmit(t) == \E i \in 1..Len(t.posts) : t.posts[i].kind = "omit"
OmitAmt(t) == LET i == CHOOSE i \in 1..Len(t.posts) : t.posts[i].kind = "omit" IN t.posts[i].amt

\* C01: every accepted transaction balances
BalancedTxn(t) ==
  LET V == SumBV(t.posts, Len(t.posts)) IN
  IF HasOmit(t) THEN AllZero(AmtAdd(V, OmitAmt(t)))                                \* also C03 DeducedExact
  ELSE LET R == AmtRound(V, prec) IN AllZero(R) \/ OppositePair(R)
AcceptedBalanced == \A i \in 1..Len(reg) : BalancedTxn(reg[i])

\* C01: a rejection as unbalanced is justified
RejectJustified ==
  (status.s = "rej" /\ status.kinds = {"unbalanced"}) =>
     /\ cur.unfilled = 0 /\ ~AllZero(Rounded) /\ ~OppositePair(Rounded)

\* flat list of committed postings in file order
RECURSIVE Flat(_)
Flat(r) == IF r = <<>> THEN <<>> ELSE Flat(SubSeq(r, 1, Len(r) - 1)) \o r[Len(r)].posts
RECURSIVE FoldAcct(_, _, _)
FoldAcct(fp, k, a) == IF k = 0 THEN AmtEmpty
                      ELSE IF fp[k].acct = a THEN AmtAdd(FoldAcct(fp, k - 1, a), fp[k].amt)
                      ELSE FoldAcct(fp, k - 1, a)

\* C02: when processing succeeds every assertion was true at its position
AssertionsTrue ==
  status.s = "ok" =>
    LET fp == Flat(reg) IN
    \A i \in 1..Len(ghost.asserts) :
       LET s == ghost.asserts[i] IN Holds(Strip(FoldAcct(fp, s.pos, s.acct)), cmdt, s.q)

\* C03: an assignment leaves the account at X and its amount is X minus the balance before
AssignExact ==
  status.s = "ok" =>
    LET fp == Flat(reg) IN
    \A i \in 1..Len(ghost.assigns) :
       LET s == ghost.assigns[i]
           before == Strip(FoldAcct(fp, s.pos - 1, s.acct))
           after == Strip(FoldAcct(fp, s.pos, s.acct))
       IN s.afterOmit \/
          IF s.q.c = "" THEN after = AmtEmpty /\ Cardinality(DOMAIN before) <= 1
          ELSE LET c == Resolve(cmdt, s.q.c) IN
               /\ AmtGet(after, c) = s.q.v
               /\ AmtGet(fp[s.pos].amt, c) = DecSub(s.q.v, AmtGet(before, c))
               /\ DOMAIN fp[s.pos].amt = {c}

\* C04: the incrementally maintained balance is the fold of the register
RawEqualsFold ==
  (pi = 0 /\ status.s # "rej") =>
    LET fp == Flat(reg) IN
    /\ \A a \in DOMAIN bal : bal[a] = Strip(FoldAcct(fp, Len(fp), a))
    /\ \A k \in 1..Len(fp) : fp[k].acct \in DOMAIN bal
NoZeroCommodity == \A a \in DOMAIN bal : \A c \in DOMAIN bal[a] : ~DecIsZero(bal[a][c])

\* C12: only canonical names reach the books
CanonicalOnly ==
  /\ \A a \in DOMAIN bal : IsCanon(acct, a)
  /\ \A a \in DOMAIN bal : \A c \in DOMAIN bal[a] : IsCanon(cmdt, c)
  /\ \A i \in 1..Len(reg) : \A j \in 1..Len(reg[i].posts) :
        /\ IsCanon(acct, reg[i].posts[j].acct)
        /\ \A c \in DOMAIN reg[i].posts[j].amt : IsCanon(cmdt, c)
  /\ \A i \in 1..Len(prices) : IsCanon(cmdt, prices[i].xc) /\ IsCanon(cmdt, prices[i].yc)

\* C12 on the query side: whatever name a query is asked with, it is answered with a canonical name, and an
\* alias answers exactly as its canonical name does
LookupCanonical ==
  /\ \A n \in DOMAIN acct : IsCanon(acct, Lookup(acct, n)) /\ Lookup(acct, Lookup(acct, n)) = Lookup(acct, n)
  /\ \A n \in DOMAIN cmdt : IsCanon(cmdt, Lookup(cmdt, n)) /\ Lookup(cmdt, Lookup(cmdt, n)) = Lookup(cmdt, n)

\* C06 at design level: every input has a defined outcome
NoStuck == AtCommit => ENABLED CommitOrReject
Termination == <>(status.s # "run")
=============================================================================
