----------------------------- MODULE ImportRules -----------------------------
(***************************************************************************)
(* C17: which configuration is in force for a file (layered documents) and *)
(* what the rewrite rules do to one record (a fold over the rule list).    *)
(*                                                                         *)
(* The fold is written twice: as the action-by-action state machine shaped *)
(* like Extractor::extract (ApplyRule, one step per rule, a fragment       *)
(* threaded through), and as an independent recursive definition of the    *)
(* statement ("last matching account-assigning rule wins; each rule sees   *)
(* the payee as rewritten so far; captures set payee and code; pending     *)
(* unless some matching account-assigning rule is not flagged pending").   *)
(* TLC checks that they agree.  Regular expressions are abstracted to a    *)
(* finite relation Match(pattern, text) supplied by the model (and checked *)
(* against the regex engine by the harness).                               *)
(***************************************************************************)
EXTENDS Integers, Sequences, FiniteSets, TLC

NoneS == "~"

\* ---------------------------------------------------------------- (i) layered configuration
\* document: [path, account, account_type, commodity, operator, rules]  ("~" = not set)
Contains(s, sub) == \E i \in 0..(Len(s) - Len(sub)) : SubSeq(s, i + 1, i + Len(sub)) = sub

Matching(docs, file) == {i \in 1..Len(docs) : Contains(file, docs[i].path)}
\* shortest path first; documents with equally long paths keep their order
Before(docs, i, j) == Len(docs[i].path) < Len(docs[j].path) \/ (Len(docs[i].path) = Len(docs[j].path) /\ i < j)
RECURSIVE Ordered(_, _)
Ordered(docs, S) == IF S = {} THEN <<>>
                    ELSE LET m == CHOOSE i \in S : \A j \in S \ {i} : Before(docs, i, j)
                         IN <<m>> \o Ordered(docs, S \ {m})

Override(old, new) == IF new = NoneS THEN old ELSE new
Merge(a, b) == [path |-> b.path, account |-> Override(a.account, b.account), account_type |-> Override(a.account_type, b.account_type),
                commodity |-> Override(a.commodity, b.commodity), operator |-> Override(a.operator, b.operator),
                rules |-> a.rules \o b.rules]
RECURSIVE FoldDocs(_, _, _)
FoldDocs(docs, order, acc) == IF order = <<>> THEN acc ELSE FoldDocs(docs, Tail(order), Merge(acc, docs[order[1]]))
Select(docs, file) ==
  LET order == Ordered(docs, Matching(docs, file)) IN
  IF order = <<>> THEN [found |-> FALSE, valid |-> FALSE, cfg |-> <<>>]
  ELSE LET c == FoldDocs(docs, Tail(order), docs[order[1]]) IN
       [found |-> TRUE, valid |-> c.account # NoneS /\ c.account_type # NoneS /\ c.commodity # NoneS, cfg |-> c]

\* the same thing said directly: a scalar comes from the LAST document (in that order) that sets it
LastSetting(docs, order, field) ==
  LET S == {k \in 1..Len(order) : docs[order[k]][field] # NoneS} IN
  IF S = {} THEN NoneS ELSE docs[order[CHOOSE k \in S : \A l \in S : l <= k]][field]
RECURSIVE ConcatRules(_, _)
ConcatRules(docs, order) == IF order = <<>> THEN <<>> ELSE docs[order[1]].rules \o ConcatRules(docs, Tail(order))
SelectAgrees(docs, file) ==
  LET order == Ordered(docs, Matching(docs, file))
      r == Select(docs, file)
  IN r.found =>
       /\ \A f \in {"account", "account_type", "commodity", "operator"} : r.cfg[f] = LastSetting(docs, order, f)
       /\ r.cfg.rules = ConcatRules(docs, order)

\* ---------------------------------------------------------------- (ii) the rewrite fold
\* rule: [or |-> Seq(Seq([field, pat])), pending, payee, account]
\* record: [payee, category, fields]  (category "~" when the statement has none; fields: the named fields of a Camt053 detail)
CONSTANT MatchTable    \* [pattern -> [text -> "~" (no match) or [payee, code] ("~" = group absent)]]
NoMatch == [m |-> FALSE, payee |-> NoneS, code |-> NoneS]
Match(pat, text) == IF text \in DOMAIN MatchTable[pat] THEN MatchTable[pat][text] ELSE NoMatch

Frag0 == [payee |-> NoneS, account |-> NoneS, code |-> NoneS, cleared |-> FALSE]

\* one field matcher against the record, seeing the payee as rewritten so far
\* the text a matcher field is applied to: `payee` sees the payee as rewritten so far, `category` the record's
\* category, every other field (the Camt053 party / information fields) the record's own field of that name
FieldText(field, frag, rec) ==
  IF field = "payee" THEN (IF frag.payee = NoneS THEN rec.payee ELSE frag.payee)
  ELSE IF field = "category" THEN rec.category
  ELSE IF field \in DOMAIN rec.fields THEN rec.fields[field] ELSE NoneS
FieldMatch(f, frag, rec) ==
  LET text == FieldText(f.field, frag, rec) IN
  IF text = NoneS THEN NoMatch
  ELSE IF f.field = "category" THEN LET r == Match(f.pat, text) IN [m |-> r.m, payee |-> NoneS, code |-> NoneS]   \* a category never captures
  ELSE Match(f.pat, text)

\* an element matches only if all its fields do; captures accumulate
RECURSIVE AndMatch(_, _, _, _)
AndMatch(fs, i, frag, rec) ==   \* [m, frag]
  IF i > Len(fs) THEN [m |-> TRUE, frag |-> frag]
  ELSE LET r == FieldMatch(fs[i], frag, rec) IN
       IF ~r.m THEN [m |-> FALSE, frag |-> frag]
       ELSE AndMatch(fs, i + 1, [frag EXCEPT !.payee = Override(@, r.payee), !.code = Override(@, r.code)], rec)
\* an OR-list matches if any element does (the first that does)
RECURSIVE OrMatch(_, _, _, _)
OrMatch(or, i, frag, rec) ==
  IF i > Len(or) THEN [m |-> FALSE, frag |-> frag]
  ELSE LET r == AndMatch(or[i], 1, frag, rec) IN IF r.m THEN r ELSE OrMatch(or, i + 1, frag, rec)

\* ---- the state machine: one action per rule, in list order
VARIABLES rules, rec, frag, idx
rvars == <<rules, rec, frag, idx>>
ApplyRule ==
  /\ idx <= Len(rules)
  /\ LET rule == rules[idx]
         r == OrMatch(rule.or, 1, frag, rec)
     IN frag' = IF ~r.m THEN frag
                ELSE [payee |-> Override(r.frag.payee, rule.payee),
                      code |-> r.frag.code,
                      account |-> Override(frag.account, rule.account),
                      cleared |-> frag.cleared \/ (rule.account # NoneS /\ ~rule.pending)]
  /\ idx' = idx + 1
  /\ UNCHANGED <<rules, rec>>
Done == idx > Len(rules)

\* ---- the statement, directly (no threading of an accumulator except the payee, which the statement itself threads)
RECURSIVE StateAfter(_)
\* the payee / code as rewritten by rules 1..k, and whether rule k matches
StateAfter(k) ==   \* [payee, code]
  IF k = 0 THEN [payee |-> NoneS, code |-> NoneS]
  ELSE LET prev == StateAfter(k - 1)
           r == OrMatch(rules[k].or, 1, [Frag0 EXCEPT !.payee = prev.payee, !.code = prev.code], rec)
       IN IF ~r.m THEN prev ELSE [payee |-> Override(r.frag.payee, rules[k].payee), code |-> r.frag.code]
MatchesAt(k) == OrMatch(rules[k].or, 1, [Frag0 EXCEPT !.payee = StateAfter(k - 1).payee, !.code = StateAfter(k - 1).code], rec).m
Assigning == {k \in 1..Len(rules) : MatchesAt(k) /\ rules[k].account # NoneS}
Statement ==
  [payee |-> StateAfter(Len(rules)).payee,
   code |-> StateAfter(Len(rules)).code,
   account |-> IF Assigning = {} THEN NoneS ELSE rules[CHOOSE k \in Assigning : \A l \in Assigning : l <= k].account,
   cleared |-> \E k \in Assigning : ~rules[k].pending]

FoldIsLeftToRight == Done => frag = Statement

\* what the import prints for the record (amount sign decides the fallback account)
Outcome(negative) ==
  [payee |-> IF frag.payee = NoneS THEN rec.payee ELSE frag.payee,
   code |-> frag.code,
   account |-> IF frag.account # NoneS THEN frag.account ELSE IF negative THEN "Expenses:Unknown" ELSE "Income:Unknown",
   pending |-> ~frag.cleared]
=============================================================================
