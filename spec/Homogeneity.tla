------------------------------ MODULE Homogeneity ------------------------------
(***************************************************************************)
(* Why a behaviour of the Plain script may be replayed with every amount   *)
(* multiplied by 10^15 (harness/src/ledger.rs, MAGNITUDE): everything the  *)
(* book-keeping of Ledger.tla does with amounts when no precision is       *)
(* declared and no posting has a cost or lot - adding postings into the    *)
(* residual and into balances, negating the residual for an omitted        *)
(* posting, stripping zero entries, and deciding between balanced /        *)
(* implied exchange / unbalanced by zero and sign tests - commutes with    *)
(* multiplication by a positive factor.  TLC checks the algebra for every  *)
(* pair of amounts over three commodities with values -2..2 (entries may   *)
(* be absent or explicitly zero) and the factors 2, 3, 10 and 1000; the    *)
(* factor itself never enters a decision, so nothing depends on its size   *)
(* as long as the products stay representable (10^15 x 6 is far inside     *)
(* 96 bits).  Assertions compare a balance with a written amount; both     *)
(* are scaled, so Holds commutes as well.                                  *)
(***************************************************************************)
EXTENDS Amt, TLC

Commodities == {"X", "Y", "Z"}
Values == {D(m, 0) : m \in -2..2}
Amounts == UNION {[S -> Values] : S \in SUBSET Commodities}
Factors == {D(2, 0), D(3, 0), D(10, 0), D(1000, 0)}
AmtScale(a, k) == [x \in DOMAIN a |-> DecMul(a[x], k)]

ScaleCommutes ==
  \A k \in Factors : \A a \in Amounts :
    /\ AllZero(AmtScale(a, k)) = AllZero(a)
    /\ OppositePair(AmtScale(a, k)) = OppositePair(a)
    /\ NonZeroDom(AmtScale(a, k)) = NonZeroDom(a)
    /\ Strip(AmtScale(a, k)) = AmtScale(Strip(a), k)
    /\ AmtNeg(AmtScale(a, k)) = AmtScale(AmtNeg(a), k)
    /\ \A c \in Commodities : AmtGet(AmtScale(a, k), c) = DecMul(AmtGet(a, c), k)
    /\ \A b \in Amounts : AmtAdd(AmtScale(a, k), AmtScale(b, k)) = AmtScale(AmtAdd(a, b), k)
    \* an assertion `= v C` / bare `= 0` on the scaled balance against the scaled value
    /\ \A c \in Commodities, v \in Values : (AmtGet(AmtScale(a, k), c) = DecMul(v, k)) = (AmtGet(a, c) = v)
ASSUME ScaleCommutes

VARIABLE u
Init == u = 0
Next == UNCHANGED u
Spec == Init /\ [][Next]_u
=============================================================================
