------------------------------ MODULE ImportCsv ------------------------------
(***************************************************************************)
(* C16: what a CSV statement row becomes.  A configuration (column layout, *)
(* delimiter, skipped head lines, date format, amount or credit/debit      *)
(* columns, account type, balance column, conversion mode, row order) and  *)
(* a sequence of rows give the expected double-entry transactions; the     *)
(* composition with book-keeping is stated here with Ledger.tla's rule for *)
(* a balanced transaction (each posting valued at its cost) and the        *)
(* running balance: a consistent statement of an asset account must be     *)
(* accepted and end at the statement's last balance.                       *)
(***************************************************************************)
EXTENDS Dec, Sequences, FiniteSets, TLC

NoneS == "~"
NoD == [m |-> 0, s |-> -1]                 \* absent number

\* row: [day, payee, amt (signed effect on the statement: credit > 0, debit < 0), rate |-> [r, inv] or NoRate, sec (unsigned secondary amount or NoD), note,
\*       chg (what the charge column shows: NoD = empty cell, else a fee that is part of amt),
\*       cmdt (what the commodity column shows; the primary commodity when there is no such column)]
\* cfg: [atype, cols ("amount"|"creditdebit"), layout, delim, skip, datefmt, order ("old_to_new"|"new_to_old"), balance (BOOLEAN),
\*       conv ("none"|"extract_pos"|"compute_pos"|"extract_pop"|"compute_pop"|"disabled"), ruleconv ("none"|"disabled"|"commodity"),
\*       charge ("none"|"column"), cmdtcol (BOOLEAN: a per-row commodity column, as multi-currency accounts have)]
NoRate == [r |-> NoD, inv |-> NoD]
Primary == "USD"
OtherCommodity == "CHF"              \* the second currency of a multi-currency account
\* the commodity a row is booked in: its commodity column, else the configured primary commodity
RowCommodity(cfg, row) == IF cfg.cmdtcol THEN row.cmdt ELSE Primary
StatementSecondary == "EUR"          \* what the statement's secondary-commodity column shows
RuleSecondary == "JPY"                \* what a rule's conversion.commodity says
SecondaryOf(cfg) == IF cfg.ruleconv = "commodity" THEN RuleSecondary ELSE StatementSecondary
\* skipped head lines (format.skip.head = cfg.skip) are RAW lines: whatever they contain - nothing at all, the
\* delimiter, an unbalanced quote - the label row is the line after them and no statement row is lost
HeadOf(k) == IF k = 0 THEN <<>>
             ELSE IF k = 2 THEN <<"Account statement line 1", "Account statement line 2">>
             ELSE <<"Statement; of, account", "", "\"unbalanced quote, period 2024">>
Account == "Assets:Src"
ChargeAccount == "Expenses:Commissions"
Operator == "The Bank"              \* the configured `operator`: the payee of a charge posting

\* ---------------------------------------------------------------- what the statement file shows for a row
\* an `amount` column shows the effect on the account as the bank prints it: for a liability
\* (credit card) a purchase is positive, i.e. the negation of the booked amount
ShownAmount(cfg, row) == IF cfg.atype = "liability" THEN DecNeg(row.amt) ELSE row.amt

\* ---------------------------------------------------------------- expected transaction of a row
\* cfg.ruleconv: conversion given by a rewrite rule that matches every row ("none" = no such rule, "disabled" = the
\* rule switches conversion off, "commodity" = the rule restates the conversion and names the secondary commodity
\* itself, which overrides whatever the statement's secondary-commodity column says); a rule's conversion takes
\* precedence over the account-wide default (cfg.conv)
Converts(cfg, row) == cfg.ruleconv # "disabled" /\ cfg.conv \notin {"none", "disabled"} /\ row.rate # NoRate
PriceOfPrimary(cfg) == cfg.conv \in {"extract_pop", "compute_pop"}
\* a charge column: the row's amount is the net effect on the account, the fee is a part of it, so what moves
\* to or from the counter account is the amount with the fee taken out (a debit of 101 with a fee of 1 pays 100,
\* a credit of 49 with a fee of 1 received 50); an empty or zero cell is no charge
HasCharge(cfg, row) == cfg.charge = "column" /\ row.chg # NoD /\ ~DecIsZero(row.chg)
Principal(cfg, row) == IF HasCharge(cfg, row) THEN DecAdd(row.amt, row.chg) ELSE row.amt
\* the secondary amount: extracted from the row, or computed from the rate
Transferred(cfg, row) ==
  IF cfg.conv \in {"extract_pos", "extract_pop"} THEN row.sec
  ELSE IF PriceOfPrimary(cfg) THEN DecMul(DecAbs(Principal(cfg, row)), row.rate.r)        \* 1 primary = rate secondary
  ELSE DecMul(DecAbs(Principal(cfg, row)), row.rate.inv)                                   \* 1 secondary = rate primary
\* sign opposite to the row's amount
Opposite(v, amt) == IF DecSign(amt) > 0 THEN DecNeg(DecAbs(v)) ELSE DecAbs(v)

NoCost == [c |-> NoneS, v |-> NoD]
SrcPosting(cfg, row, running) ==
  [account |-> Account, amt |-> row.amt, c |-> RowCommodity(cfg, row),
   \* price_of_primary: the rate prices the primary commodity, so it sits on the primary posting
   cost |-> IF Converts(cfg, row) /\ PriceOfPrimary(cfg) THEN [c |-> SecondaryOf(cfg), v |-> row.rate.r] ELSE NoCost,
   balance |-> IF cfg.balance THEN running ELSE NoD, payee |-> NoneS]
\* the fee, in the primary commodity; priced like the account posting when the rate prices the primary commodity
ChargePosting(cfg, row) ==
  [account |-> ChargeAccount, amt |-> row.chg, c |-> Primary,
   cost |-> IF Converts(cfg, row) /\ PriceOfPrimary(cfg) THEN [c |-> SecondaryOf(cfg), v |-> row.rate.r] ELSE NoCost,
   balance |-> NoD, payee |-> Operator]
DestPosting(cfg, row) ==
  IF Converts(cfg, row)
  THEN [account |-> IF DecSign(row.amt) > 0 THEN "Income:Unknown" ELSE "Expenses:Unknown",
        amt |-> Opposite(Transferred(cfg, row), row.amt), c |-> SecondaryOf(cfg),
        cost |-> IF PriceOfPrimary(cfg) THEN NoCost ELSE [c |-> Primary, v |-> row.rate.r],
        balance |-> NoD, payee |-> NoneS]
  ELSE [account |-> IF DecSign(row.amt) > 0 THEN "Income:Unknown" ELSE "Expenses:Unknown",
        amt |-> DecNeg(Principal(cfg, row)), c |-> RowCommodity(cfg, row), cost |-> NoCost, balance |-> NoD, payee |-> NoneS]
\* positive amounts list the account first, negative ones the counter-account first; a charge sits between them
ExpectedTxn(cfg, row, running) ==
  LET chg == IF HasCharge(cfg, row) THEN <<ChargePosting(cfg, row)>> ELSE <<>> IN
  [day |-> row.day, payee |-> row.payee, note |-> row.note,
   posts |-> IF DecSign(row.amt) > 0 THEN <<SrcPosting(cfg, row, running)>> \o chg \o <<DestPosting(cfg, row)>>
             ELSE <<DestPosting(cfg, row)>> \o chg \o <<SrcPosting(cfg, row, running)>>]

\* rows are given oldest first; the running balance column accumulates from the opening balance - per commodity
\* when rows carry their own: a row's balance cell is the balance in that row's commodity (the opening balance
\* is in the primary commodity, the account holds nothing else beforehand)
RECURSIVE RunningIn(_, _, _, _, _)
RunningIn(cfg, rows, k, opening, c) ==
  IF k = 0 THEN (IF c = Primary THEN opening ELSE D(0, 0))
  ELSE LET prev == RunningIn(cfg, rows, k - 1, opening, c) IN
       IF RowCommodity(cfg, rows[k]) = c THEN DecAdd(prev, rows[k].amt) ELSE prev
RunningAtC(cfg, rows, k, opening) == RunningIn(cfg, rows, k, opening, RowCommodity(cfg, rows[k]))
RECURSIVE RunningAt(_, _, _)
RunningAt(rows, k, opening) == IF k = 0 THEN opening ELSE DecAdd(RunningAt(rows, k - 1, opening), rows[k].amt)
Expected(cfg, rows, opening) == [k \in 1..Len(rows) |-> ExpectedTxn(cfg, rows[k], RunningAtC(cfg, rows, k, opening))]
\* the order of lines in the file
FileOrder(cfg, rows) == IF cfg.order = "new_to_old" THEN [k \in 1..Len(rows) |-> rows[Len(rows) + 1 - k]] ELSE rows

\* ---------------------------------------------------------------- composition with book-keeping (design check)
\* balancing value of a posting: its cost if it has one (rate x quantity), else its own amount
Valued(p) == IF p.cost = NoCost THEN [c |-> p.c, v |-> p.amt] ELSE [c |-> p.cost.c, v |-> DecMul(p.amt, p.cost.v)]
RECURSIVE SumValued(_, _)
SumValued(ps, k) == IF k = 0 THEN D(0, 0) ELSE DecAdd(SumValued(ps, k - 1), Valued(ps[k]).v)
TxnBalanced(t) ==
  /\ \A i, j \in 1..Len(t.posts) : Valued(t.posts[i]).c = Valued(t.posts[j]).c
  /\ DecIsZero(SumValued(t.posts, Len(t.posts)))
\* every transaction balances, and the asserted balances are the running sums: book-keeping accepts
\* the ledger and the account ends at the last running balance
AssetConsistentAccepted(cfg, rows, opening) ==
  LET e == Expected(cfg, rows, opening) IN
  /\ \A k \in 1..Len(e) : TxnBalanced(e[k])
  /\ \A k \in 1..Len(e) : \A i \in 1..Len(e[k].posts) :
        (e[k].posts[i].account = Account /\ cfg.balance) => e[k].posts[i].balance = RunningAtC(cfg, rows, k, opening)
  \* without a commodity column there is one running balance
  /\ ~cfg.cmdtcol => \A k \in 1..Len(rows) : RunningAtC(cfg, rows, k, opening) = RunningAt(rows, k, opening)
RateOnPricedCommodity(cfg, rows, opening) ==
  \A k \in 1..Len(rows) : \A i \in 1..Len(Expected(cfg, rows, opening)[k].posts) :
     LET p == Expected(cfg, rows, opening)[k].posts[i] IN p.cost # NoCost => p.cost.c # p.c
=============================================================================
