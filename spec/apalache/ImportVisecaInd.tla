--------------------------- MODULE ImportVisecaInd ---------------------------
(***************************************************************************)
(* Apalache wrapper of ImportVisecaCursor.tla: IndInv is inductive for     *)
(* statements of ANY content up to MaxLen lines.  Checked as               *)
(*   Init => IndInv                 (--init=Init --length=0)               *)
(*   IndInv /\ Next => IndInv'       (--init=IndInit --length=1)            *)
(* with non-vacuity probes that must be refuted (tools/apalache_viseca.sh).*)
(***************************************************************************)
EXTENDS ImportVisecaCursor, Apalache

CONSTANT
  \* @type: Int;
  MaxLen

Init == /\ lines = Gen(MaxLen) /\ (\A i \in DOMAIN lines : lines[i] \in Kinds)
        /\ pos = 0 /\ peeked = FALSE /\ count = 0 /\ pc = "entry" /\ ek = "~"

IndInit == /\ lines = Gen(MaxLen) /\ pos = Gen(1) /\ peeked = Gen(1) /\ count = Gen(1) /\ pc = Gen(1) /\ ek = Gen(1)
           /\ IndInv
ConstInit == MaxLen = 12
\* non-vacuity probes (each must be REFUTED from IndInit: the inductive hypothesis admits such states)
ProbeAirRead == pc # "airread"
ProbeDeep == count <= 9
\* a deliberately weakened hypothesis is not inductive (must be REFUTED at length 1): without "the peeked line exists"
WeakInv == /\ pos >= 0 /\ pos <= Len(lines) + 1 /\ (Done \/ count = (IF peeked THEN pos - 1 ELSE pos)) /\ pc \in PCs
WeakInit == lines = Gen(MaxLen) /\ pos = Gen(1) /\ peeked = Gen(1) /\ count = Gen(1) /\ pc = Gen(1) /\ ek = Gen(1) /\ WeakInv
=============================================================================
