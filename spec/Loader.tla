------------------------------ MODULE Loader ------------------------------
(***************************************************************************)
(* Include expansion (okane_core::load::Loader) as a stack machine over a  *)
(* file-system model, next to an independent recursive definition of what  *)
(* "the entries of a file with every include replaced in place" means.     *)
(*                                                                         *)
(* A path is a sequence of components, a component (name) is a sequence of *)
(* one-character strings, so that globbing and the byte order used for     *)
(* sorting are defined here and not borrowed from a library.               *)
(*                                                                         *)
(* Shaped like load.rs::load_impl: one frame per recursive call; an        *)
(* include first computes and sorts its matches (Descend), then each match *)
(* is entered in turn (Enter); entering a file that is already being       *)
(* loaded is an error (FailCycle) -- the include stack the property needs  *)
(* for "files that include themselves terminate with an error".            *)
(***************************************************************************)
EXTENDS Integers, Sequences, FiniteSets, TLC

CONSTANTS Universe,    \* set of paths that may exist
          Root,        \* path handed to the loader
          CharOrder,   \* every character used in names, in byte order
          Patterns     \* set of include patterns that may occur

Missing == <<[k |-> "missing", id |-> -1]>>

VARIABLES fs,          \* [Universe -> Missing or sequence of items]
          stack,       \* frames [path, pos, pend], innermost last
          delivered,   \* sequence of [path, id] handed to the callback
          status       \* "init" | "run" | "ok" | "err_io" | "err_notfound" | "err_cycle"

vars == <<fs, stack, delivered, status>>

\* ------------------------------------------------------------ paths and names
Dir(p) == SubSeq(p, 1, Len(p) - 1)
Exists(p) == p \in Universe /\ fs[p] # Missing
Existing == {p \in Universe : fs[p] # Missing}

Rank(c) == CHOOSE i \in 1..Len(CharOrder) : CharOrder[i] = c

RECURSIVE NameLess(_, _)
NameLess(a, b) ==
  IF a = <<>> THEN b # <<>>
  ELSE IF b = <<>> THEN FALSE
  ELSE IF a[1] = b[1] THEN NameLess(Tail(a), Tail(b))
  ELSE Rank(a[1]) < Rank(b[1])

\* PathBuf's order: component-wise, each component by bytes
RECURSIVE PathLess(_, _)
PathLess(p, q) ==
  IF p = <<>> THEN q # <<>>
  ELSE IF q = <<>> THEN FALSE
  ELSE IF p[1] = q[1] THEN PathLess(Tail(p), Tail(q))
  ELSE NameLess(p[1], q[1])

RECURSIVE SortPaths(_)
SortPaths(S) ==
  IF S = {} THEN <<>>
  ELSE LET m == CHOOSE p \in S : \A q \in S \ {p} : PathLess(p, q)
       IN <<m>> \o SortPaths(S \ {m})

\* ------------------------------------------------------------ globbing
\* a pattern component is a sequence of tokens: a character, "*" or "?"
RECURSIVE GlobRest(_, _)
GlobRest(pat, s) ==
  IF pat = <<>> THEN s = <<>>
  ELSE IF pat[1] = "*" THEN GlobRest(Tail(pat), s) \/ (s # <<>> /\ GlobRest(pat, Tail(s)))
  ELSE IF pat[1] = "?" THEN s # <<>> /\ GlobRest(Tail(pat), Tail(s))
  ELSE s # <<>> /\ s[1] = pat[1] /\ GlobRest(Tail(pat), Tail(s))

\* wildcards never match a leading dot; they never cross a separator because
\* matching is per component
GlobName(pat, s) ==
  /\ (s # <<>> /\ s[1] = ".") => (pat # <<>> /\ pat[1] = ".")
  /\ GlobRest(pat, s)

\* an include pattern: `up` leading "..", then components (the last one names files)
\* resolved against the directory of the INCLUDING file
Base(dir, pat) == SubSeq(dir, 1, Len(dir) - pat.up)
Resolvable(dir, pat) == pat.up < Len(dir)
MatchesIn(files, dir, pat) ==
  IF ~Resolvable(dir, pat) THEN {}
  ELSE LET b == Base(dir, pat) IN
       {p \in files : /\ Len(p) = Len(b) + Len(pat.comps)
                      /\ SubSeq(p, 1, Len(b)) = b
                      /\ \A i \in 1..Len(pat.comps) : GlobName(pat.comps[i], p[Len(b) + i])}
Matches(dir, pat) == MatchesIn(Existing, dir, pat)

\* ------------------------------------------------------------ items
Ent(i) == [k |-> "ent", id |-> i]
Inc(p) == [k |-> "inc", pat |-> p]
IsInc(it) == it.k = "inc"

\* ------------------------------------------------------------ the loader
Top == stack[Len(stack)]
OnStack(p) == \E i \in 1..Len(stack) : stack[i].path = p
SetTop(f) == [stack EXCEPT ![Len(stack)] = f]

Open ==
  /\ status = "init"
  /\ IF Exists(Root)
     THEN stack' = <<[path |-> Root, pos |-> 1, pend |-> <<>>]>> /\ status' = "run"
     ELSE stack' = stack /\ status' = "err_io"
  /\ UNCHANGED <<fs, delivered>>

AtItem == status = "run" /\ stack # <<>> /\ Top.pend = <<>> /\ Top.pos <= Len(fs[Top.path])
Item == fs[Top.path][Top.pos]

Deliver ==
  /\ AtItem /\ ~IsInc(Item)
  /\ delivered' = Append(delivered, [path |-> Top.path, id |-> Item.id])
  /\ stack' = SetTop([Top EXCEPT !.pos = @ + 1])
  /\ UNCHANGED <<fs, status>>

Descend ==
  /\ AtItem /\ IsInc(Item)
  /\ LET m == Matches(Dir(Top.path), Item.pat) IN
     IF m = {}
     THEN status' = "err_notfound" /\ UNCHANGED stack
     ELSE status' = status /\ stack' = SetTop([Top EXCEPT !.pos = @ + 1, !.pend = SortPaths(m)])
  /\ UNCHANGED <<fs, delivered>>

Enter ==
  /\ status = "run" /\ stack # <<>> /\ Top.pend # <<>>
  /\ LET t == Head(Top.pend) IN
     IF OnStack(t)
     THEN status' = "err_cycle" /\ UNCHANGED stack
     ELSE /\ status' = status
          /\ stack' = Append(SetTop([Top EXCEPT !.pend = Tail(@)]), [path |-> t, pos |-> 1, pend |-> <<>>])
  /\ UNCHANGED <<fs, delivered>>

Return ==
  /\ status = "run" /\ stack # <<>> /\ Top.pend = <<>> /\ Top.pos > Len(fs[Top.path])
  /\ stack' = SubSeq(stack, 1, Len(stack) - 1)
  /\ UNCHANGED <<fs, delivered, status>>

Finish ==
  /\ status = "run" /\ stack = <<>>
  /\ status' = "ok"
  /\ UNCHANGED <<fs, stack, delivered>>

Load == Open \/ Deliver \/ Descend \/ Enter \/ Return \/ Finish

\* ------------------------------------------------------------ what expansion means
\* structural recursion, no stack, no positions: result [ok, err, seq]; on failure seq
\* is what precedes the failure.
OkSeq(s) == [ok |-> TRUE, err |-> "", seq |-> s]
Fail(e) == [ok |-> FALSE, err |-> e, seq |-> <<>>]
Cat(h, r) == [ok |-> r.ok, err |-> r.err, seq |-> h.seq \o r.seq]

RECURSIVE FlatFile(_, _), FlatItems(_, _, _), FlatList(_, _)
FlatFile(p, seen) ==
  IF p \in seen THEN Fail("err_cycle") ELSE FlatItems(p, 1, seen \cup {p})
FlatItems(p, i, seen) ==
  IF i > Len(fs[p]) THEN OkSeq(<<>>)
  ELSE LET it == fs[p][i]
           h == IF ~IsInc(it) THEN OkSeq(<<[path |-> p, id |-> it.id]>>)
                ELSE LET m == Matches(Dir(p), it.pat) IN
                     IF m = {} THEN Fail("err_notfound") ELSE FlatList(SortPaths(m), seen)
       IN IF ~h.ok THEN h ELSE Cat(h, FlatItems(p, i + 1, seen))
FlatList(ps, seen) ==
  IF ps = <<>> THEN OkSeq(<<>>)
  ELSE LET h == FlatFile(ps[1], seen) IN
       IF ~h.ok THEN h ELSE Cat(h, FlatList(Tail(ps), seen))

Flatten == IF Exists(Root) THEN FlatFile(Root, {}) ELSE Fail("err_io")

IsPrefix(a, b) == Len(a) <= Len(b) /\ SubSeq(b, 1, Len(a)) = a

\* ------------------------------------------------------------ properties (C11, C06)
DeliveredIsFlatten ==
  LET r == Flatten IN
  /\ IsPrefix(delivered, r.seq)
  /\ status = "ok" => r.ok /\ delivered = r.seq
  /\ status \in {"err_io", "err_notfound", "err_cycle"} => ~r.ok /\ r.err = status /\ delivered = r.seq

\* the include line itself is never delivered: everything delivered is a non-include
\* item of the file it is attributed to
IncludeNeverDelivered ==
  \A i \in 1..Len(delivered) :
     LET d == delivered[i] IN
     Exists(d.path) /\ \E k \in 1..Len(fs[d.path]) : ~IsInc(fs[d.path][k]) /\ fs[d.path][k].id = d.id

\* the include stack never holds a file twice, hence is bounded by the number of files
StackSimple ==
  /\ \A i, j \in 1..Len(stack) : stack[i].path = stack[j].path => i = j
  /\ Len(stack) <= Cardinality(Existing)

NoStuck == status \in {"init", "run"} => ENABLED Load

Termination == <>(status \notin {"init", "run"})

\* ------------------------------------------------------------ splitting (C11, second half)
\* Cutting items i..j of file f out into a new file and leaving an include in their
\* place; or cutting i..m and m+1..j into two new files reached by one glob.  The new
\* files must not be captured by an include that already exists.
EntrySeq(r) == [i \in 1..Len(r.seq) |-> r.seq[i].id]

\* an include line that moves to a file in another directory would be resolved against
\* that directory ("paths taken relative to the including file"), so a cut may carry
\* include lines only into the same directory  (found by TLC: SplitIsFlat failed without it)
Movable(cut, fromDir, toDir) == fromDir = toDir \/ \A k \in 1..Len(cut) : ~IsInc(cut[k])

NoCapture(newfs) ==
  \A g \in Universe : newfs[g] # Missing /\ fs[g] # Missing =>
    \A k \in 1..Len(fs[g]) : IsInc(fs[g][k]) =>
       MatchesIn({p \in Universe : newfs[p] # Missing}, Dir(g), fs[g][k].pat) = Matches(Dir(g), fs[g][k].pat)

SplitOne(f, i, j, np, pat) ==
  /\ status = "init" /\ Exists(f) /\ np \in Universe /\ ~Exists(np)
  /\ 1 <= i /\ i <= j /\ j <= Len(fs[f])
  /\ LET cut == SubSeq(fs[f], i, j)
         nfs == [fs EXCEPT ![f] = SubSeq(@, 1, i - 1) \o <<Inc(pat)>> \o SubSeq(@, j + 1, Len(@)), ![np] = cut]
     IN /\ Movable(cut, Dir(f), Dir(np))
        /\ MatchesIn(Existing \cup {np}, Dir(f), pat) = {np}
        /\ NoCapture([fs EXCEPT ![np] = cut])
        /\ fs' = nfs
  /\ UNCHANGED <<stack, delivered, status>>

SplitTwo(f, i, m, j, p1, p2, pat) ==
  /\ status = "init" /\ Exists(f) /\ p1 \in Universe /\ p2 \in Universe /\ ~Exists(p1) /\ ~Exists(p2)
  /\ PathLess(p1, p2)
  /\ 1 <= i /\ i <= m /\ m < j /\ j <= Len(fs[f])
  /\ LET nfs == [fs EXCEPT ![f] = SubSeq(@, 1, i - 1) \o <<Inc(pat)>> \o SubSeq(@, j + 1, Len(@)),
                           ![p1] = SubSeq(fs[f], i, m), ![p2] = SubSeq(fs[f], m + 1, j)]
     IN /\ Movable(SubSeq(fs[f], i, j), Dir(f), Dir(p1)) /\ Movable(SubSeq(fs[f], i, j), Dir(f), Dir(p2))
        /\ MatchesIn(Existing \cup {p1, p2}, Dir(f), pat) = {p1, p2}
        /\ NoCapture([fs EXCEPT ![p1] = <<>>, ![p2] = <<>>])
        /\ fs' = nfs
  /\ UNCHANGED <<stack, delivered, status>>

Split ==
  \/ \E f \in Existing : \E i \in 1..Len(fs[f]) : \E j \in i..Len(fs[f]) :
        \E np \in Universe \ Existing : \E pat \in Patterns : SplitOne(f, i, j, np, pat)
  \/ \E f \in Existing : \E i \in 1..Len(fs[f]) : \E j \in (i + 1)..Len(fs[f]) : \E m \in i..(j - 1) :
        \E p1 \in Universe \ Existing : \E p2 \in Universe \ Existing : \E pat \in Patterns :
           SplitTwo(f, i, m, j, p1, p2, pat)

\* Splitting never changes the expansion (as a sequence of entries) and never makes it
\* fail: stated as an invariant of the scenario that starts from a flat ledger
\* (MCLoader!SplitIsFlat), because every reachable tree is a result of splitting.
=============================================================================
