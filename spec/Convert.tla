------------------------------- MODULE Convert -------------------------------
(***************************************************************************)
(* Converted balance reports (`balance -X T [--historical]`): Report.tla   *)
(* composed with Price.tla.  The price events are the ones Ledger.tla      *)
(* logged while reading the file (costs, lot prices, implied exchanges),   *)
(* followed by the price-database lines `db`.                              *)
(***************************************************************************)
EXTENDS Report

VARIABLE db         \* price-database events (Price.tla's event shape), loaded after the ledger

\* ---- Dec <-> exponent pairs (2^a * 5^b)
RECURSIVE Factor(_, _)
Factor(n, p) == IF n % p = 0 THEN 1 + Factor(n \div p, p) ELSE 0       \* n > 0
RECURSIVE PowI(_, _)
PowI(b, n) == IF n <= 0 THEN 1 ELSE b * PowI(b, n - 1)
\* only defined for |m| = 2^a * 5^b, which the scenarios guarantee
DecToExp(d) == LET m == Abs(d.m) IN <<Factor(m, 2) - d.s, Factor(m, 5) - d.s>>
ExpOK(d) == d.m # 0 /\ LET m == Abs(d.m) IN m = PowI(2, Factor(m, 2)) * PowI(5, Factor(m, 5))
\* d * 2^a * 5^b, exactly
ScaleExp(d, r) ==
  LET a == r[1]  b == r[2] IN
  D(d.m * PowI(2, a) * PowI(5, -a) * PowI(5, b) * PowI(2, -b), d.s + Max(-a, 0) + Max(-b, 0))

LedgerEvents == [i \in 1..Len(prices) |->
                   [src |-> "ledger", date |-> prices[i].date, of |-> prices[i].xc, with |-> prices[i].yc,
                    r |-> <<DecToExp(prices[i].yv)[1] - DecToExp(prices[i].xv)[1],
                            DecToExp(prices[i].yv)[2] - DecToExp(prices[i].xv)[2]>>]]
PricesExpOK == \A i \in 1..Len(prices) : ExpOK(prices[i].xv) /\ ExpOK(prices[i].yv)

PR == INSTANCE Price WITH events <- LedgerEvents \o db, phase <- "done"

\* every way to convert a (stripped) amount into T as of `day`: [ok, vals]
RECURSIVE SumChoices(_, _, _, _)
SumChoices(cs, amt, T, day) ==
  IF cs = {} THEN {DZero}
  ELSE LET c == CHOOSE c \in cs : TRUE
           rest == SumChoices(cs \ {c}, amt, T, day)
           here == IF c = T THEN {amt[c]} ELSE {ScaleExp(amt[c], r) : r \in PR!Convert(c, T, day)}
       IN {DecAdd(x, y) : x \in rest, y \in here}
ConvAmt(amt, T, day) ==
  IF \E c \in DOMAIN amt \ {T} : PR!Convert(c, T, day) = {}
  THEN [ok |-> FALSE, vals |-> {}]
  ELSE [ok |-> TRUE, vals |-> SumChoices(DOMAIN amt, amt, T, day)]

RoundT(v, T) == IF T \in DOMAIN prec THEN DecRound(v, prec[T]) ELSE v

\* balance -X T --now day [--start s --end e]: each holding converted at `day`;
\* nothing but the result is rounded, and only to T's declared precision
UpToDate(a, T, day, s, e) ==
  LET base == IF s = NoBound /\ e = NoBound THEN BalanceAll(a) ELSE RangeRaw(a, s, e)
      c == ConvAmt(base, T, day)
  IN [ok |-> c.ok, vals |-> {RoundT(v, T) : v \in c.vals}]

\* balance -X T --historical: each posting converted at its own transaction date
RECURSIVE HistSum(_, _, _, _, _)
HistSum(r, a, T, s, e) ==       \* [ok, vals] over the transactions of r
  IF r = <<>> THEN [ok |-> TRUE, vals |-> {DZero}]
  ELSE LET t == r[Len(r)]
           rest == HistSum(SubSeq(r, 1, Len(r) - 1), a, T, s, e)
       IN IF ~InRange(t.date, s, e) THEN rest
          ELSE LET RECURSIVE PostSum(_)
                   PostSum(j) == IF j = 0 THEN [ok |-> TRUE, vals |-> {DZero}]
                                 ELSE LET pr == PostSum(j - 1) IN
                                      IF t.posts[j].acct # a THEN pr
                                      ELSE LET c == ConvAmt(Strip(t.posts[j].amt), T, t.date) IN
                                           [ok |-> pr.ok /\ c.ok, vals |-> {DecAdd(x, y) : x \in pr.vals, y \in c.vals}]
                   here == PostSum(Len(t.posts))
               IN [ok |-> rest.ok /\ here.ok, vals |-> {DecAdd(x, y) : x \in rest.vals, y \in here.vals}]
Historical(a, T, s, e) ==
  LET h == HistSum(reg, a, T, s, e) IN [ok |-> h.ok, vals |-> {RoundT(v, T) : v \in h.vals}]

\* ------------------------------------------------------------------ C10, at design level
Targets == UNION {DOMAIN bal[a] : a \in DOMAIN bal}
\* amounts already in T are untouched: an account holding only T converts to its own balance
TargetUntouched ==
  status.s = "ok" => \A a \in AccountsOfReg : \A T \in Targets : \A d \in 0..4 :
     DOMAIN BalanceAll(a) = {T} => UpToDate(a, T, d, NoBound, NoBound) = [ok |-> TRUE, vals |-> {RoundT(BalanceAll(a)[T], T)}]
\* the report fails exactly when some holding has no chain to T
FailsIffMissing ==
  status.s = "ok" => \A a \in AccountsOfReg : \A T \in Targets : \A d \in 0..4 :
     UpToDate(a, T, d, NoBound, NoBound).ok <=> \A c \in DOMAIN BalanceAll(a) \ {T} : PR!Convert(c, T, d) # {}
\* complete: without declared precision, the per-account results of a range split add up
SplitAdds ==
  (status.s = "ok" /\ prec = EmptyMap) => \A a \in AccountsOfReg : \A T \in Targets : \A d \in 1..3 :
     LET whole == Historical(a, T, NoBound, NoBound)
         l == Historical(a, T, NoBound, d)
         r == Historical(a, T, d, NoBound)
     IN (whole.ok /\ l.ok /\ r.ok) => \E x \in l.vals, y \in r.vals : DecAdd(x, y) \in whole.vals
=============================================================================
