-------------------------------- MODULE Expr --------------------------------
(***************************************************************************)
(* Value expressions: the documented grammar (doc/syntax.md)               *)
(*     value-expr ::= amount-expr | "(" add-expr ")"                       *)
(*     add-expr   ::= mul-expr ([+-] mul-expr)*                            *)
(*     mul-expr   ::= unary-expr ([*/] unary-expr)*                        *)
(*     unary-expr ::= "-"? value-expr                                      *)
(* with two independently written semantics:                               *)
(*   EvalTree   - structural recursion over the grammar's derivation tree, *)
(*                folding each operator list from the left (the shape of   *)
(*                the parser's infixl and of Evaluable::eval_visit);       *)
(*   EvalTokens - over the flat token sequence, by splitting at the LAST   *)
(*                top-level binary + or -, else the last top-level * or /  *)
(*                (the schoolbook reading of precedence and left           *)
(*                associativity), knowing nothing about trees.             *)
(* TLC checks that they agree on every sentence in the bound.  Values are  *)
(* exact rationals; commodity amounts keep an explicit domain (zero        *)
(* entries are retained by sums).                                          *)
(***************************************************************************)
EXTENDS Integers, Sequences, FiniteSets, TLC

\* ---------------------------------------------------------------- rationals
Abs(n) == IF n < 0 THEN -n ELSE n
RECURSIVE Gcd(_, _)
Gcd(a, b) == IF b = 0 THEN a ELSE Gcd(b, a % b)
R(n, d) == LET g == Gcd(Abs(n), Abs(d))
               s == IF d < 0 THEN -1 ELSE 1
           IN IF n = 0 THEN [n |-> 0, d |-> 1] ELSE [n |-> s * (n \div g), d |-> s * (d \div g)]
RZero == [n |-> 0, d |-> 1]
RAdd(a, b) == R(a.n * b.d + b.n * a.d, a.d * b.d)
RNeg(a) == [n |-> -a.n, d |-> a.d]
RSub(a, b) == RAdd(a, RNeg(b))
RMul(a, b) == R(a.n * b.n, a.d * b.d)
RDiv(a, b) == R(a.n * b.d, a.d * b.n)          \* b # 0
RIsZero(a) == a.n = 0

\* ---------------------------------------------------------------- values
Num(r) == [t |-> "num", r |-> r, a |-> <<>>]
Comm(f) == [t |-> "comm", r |-> RZero, a |-> f]          \* f: [set of commodities -> rational]
Err == [t |-> "err", r |-> RZero, a |-> <<>>]
Open == [t |-> "open", r |-> RZero, a |-> <<>>]          \* the statement does not say (number / commodity, commodity / commodity)

Get(f, c) == IF c \in DOMAIN f THEN f[c] ELSE RZero
CAdd(f, g) == [c \in DOMAIN f \cup DOMAIN g |-> RAdd(Get(f, c), Get(g, c))]
CNeg(f) == [c \in DOMAIN f |-> RNeg(f[c])]
CScale(f, r) == [c \in DOMAIN f |-> RMul(f[c], r)]
CDivBy(f, r) == [c \in DOMAIN f |-> RDiv(f[c], r)]
CAllZero(f) == \A c \in DOMAIN f : RIsZero(f[c])
NonZero(f) == {c \in DOMAIN f : ~RIsZero(f[c])}
Strip(f) == [c \in NonZero(f) |-> f[c]]

IsZeroVal(v) == (v.t = "num" /\ RIsZero(v.r)) \/ (v.t = "comm" /\ CAllZero(v.a))

VNeg(v) == CASE v.t = "num" -> Num(RNeg(v.r)) [] v.t = "comm" -> Comm(CNeg(v.a)) [] OTHER -> v

\* the typing table of the statement
Apply(op, l, r) ==
  IF l.t = "err" \/ r.t = "err" THEN Err
  ELSE IF l.t = "open" \/ r.t = "open" THEN Open
  ELSE CASE op = "+" -> (IF l.t = "num" /\ r.t = "num" THEN Num(RAdd(l.r, r.r))
                         ELSE IF l.t = "comm" /\ r.t = "comm" THEN Comm(CAdd(l.a, r.a))
                         ELSE Err)                                  \* bare number + commodity amount
         [] op = "-" -> (IF l.t = "num" /\ r.t = "num" THEN Num(RSub(l.r, r.r))
                         ELSE IF l.t = "comm" /\ r.t = "comm" THEN Comm(CAdd(l.a, CNeg(r.a)))
                         ELSE Err)
         [] op = "*" -> (IF l.t = "num" /\ r.t = "num" THEN Num(RMul(l.r, r.r))
                         ELSE IF l.t = "comm" /\ r.t = "num" THEN Comm(CScale(l.a, r.r))
                         ELSE IF l.t = "num" /\ r.t = "comm" THEN Comm(CScale(r.a, l.r))
                         ELSE Err)                                  \* commodity * commodity
         [] op = "/" -> (IF IsZeroVal(r) THEN Err                   \* division by zero
                         ELSE IF l.t = "num" /\ r.t = "num" THEN Num(RDiv(l.r, r.r))
                         ELSE IF l.t = "comm" /\ r.t = "num" THEN Comm(CDivBy(l.a, r.r))
                         ELSE Open)

\* an amount literal: bare number or number with commodity
AtomVal(a) == IF a.c = "" THEN Num(a.r) ELSE Comm([c \in {a.c} |-> a.r])

\* ---------------------------------------------------------------- derivation trees
\* value:  [k |-> "amt", r, c, txt] | [k |-> "par", e |-> add]
\* add:    [first |-> mul, rest |-> Seq([op, x |-> mul])]
\* mul:    [first |-> un,  rest |-> Seq([op, x |-> un])]
\* un:     [neg |-> BOOLEAN, v |-> value]
RECURSIVE EvalValue(_), EvalAdd(_), EvalMul(_), EvalUn(_), FoldAdd(_, _, _), FoldMul(_, _, _)
EvalValue(v) == IF v.k = "amt" THEN AtomVal(v) ELSE EvalAdd(v.e)
EvalUn(u) == IF u.neg THEN VNeg(EvalValue(u.v)) ELSE EvalValue(u.v)
FoldMul(acc, rest, i) == IF i > Len(rest) THEN acc ELSE FoldMul(Apply(rest[i].op, acc, EvalUn(rest[i].x)), rest, i + 1)
EvalMul(m) == FoldMul(EvalUn(m.first), m.rest, 1)
FoldAdd(acc, rest, i) == IF i > Len(rest) THEN acc ELSE FoldAdd(Apply(rest[i].op, acc, EvalMul(rest[i].x)), rest, i + 1)
EvalAdd(a) == FoldAdd(EvalMul(a.first), a.rest, 1)
EvalTree(v) == EvalValue(v)

\* ---------------------------------------------------------------- token sequences
\* tokens: [k |-> "op", s] for ( ) + - * / ; [k |-> "amt", r, c, txt]
Op(s) == [k |-> "op", s |-> s, r |-> RZero, c |-> "", txt |-> s]
AmtTok(v) == [k |-> "amt", s |-> "", r |-> v.r, c |-> v.c, txt |-> v.txt]

RECURSIVE TokValue(_), TokAdd(_), TokMul(_), TokUn(_), TokRestAdd(_, _), TokRestMul(_, _)
TokValue(v) == IF v.k = "amt" THEN <<AmtTok(v)>> ELSE <<Op("(")>> \o TokAdd(v.e) \o <<Op(")")>>
TokUn(u) == (IF u.neg THEN <<Op("-")>> ELSE <<>>) \o TokValue(u.v)
TokRestMul(rest, i) == IF i > Len(rest) THEN <<>> ELSE <<Op(rest[i].op)>> \o TokUn(rest[i].x) \o TokRestMul(rest, i + 1)
TokMul(m) == TokUn(m.first) \o TokRestMul(m.rest, 1)
TokRestAdd(rest, i) == IF i > Len(rest) THEN <<>> ELSE <<Op(rest[i].op)>> \o TokMul(rest[i].x) \o TokRestAdd(rest, i + 1)
TokAdd(a) == TokMul(a.first) \o TokRestAdd(a.rest, 1)
Tokens(v) == TokValue(v)

IsOp(t, s) == t.k = "op" /\ t.s = s
DepthBefore(toks, i) ==
  Cardinality({j \in 1..(i - 1) : IsOp(toks[j], "(")}) - Cardinality({j \in 1..(i - 1) : IsOp(toks[j], ")")})
\* a + - * / is binary when what precedes it ends an operand
Binary(toks, i) == i > 1 /\ (toks[i - 1].k = "amt" \/ IsOp(toks[i - 1], ")"))
TopBinary(toks, ops) == {i \in 1..Len(toks) : toks[i].k = "op" /\ toks[i].s \in ops /\ DepthBefore(toks, i) = 0 /\ Binary(toks, i)}
MaxOf(S) == CHOOSE x \in S : \A y \in S : y <= x

RECURSIVE EvalToks(_)
EvalToks(toks) ==
  LET adds == TopBinary(toks, {"+", "-"})
      muls == TopBinary(toks, {"*", "/"})
  IN IF adds # {} THEN LET i == MaxOf(adds) IN
        Apply(toks[i].s, EvalToks(SubSeq(toks, 1, i - 1)), EvalToks(SubSeq(toks, i + 1, Len(toks))))
     ELSE IF muls # {} THEN LET i == MaxOf(muls) IN
        Apply(toks[i].s, EvalToks(SubSeq(toks, 1, i - 1)), EvalToks(SubSeq(toks, i + 1, Len(toks))))
     ELSE IF IsOp(toks[1], "-") THEN VNeg(EvalToks(Tail(toks)))
     ELSE IF IsOp(toks[1], "(") THEN EvalToks(SubSeq(toks, 2, Len(toks) - 1))
     ELSE AtomVal(toks[1])

\* ---------------------------------------------------------------- where a value is used
\* "amount" / "assign": zero or a single commodity;  "cost" / "lot": exactly one commodity
\* (then the book-keeping rules of C01 apply: a zero rate is rejected);  "eval": any amount.
\* An amount whose domain has several commodities of which at most one is non-zero
\* (1 X - 1 X + 2 Y) is neither clearly single nor clearly multi-commodity: either verdict.
Ok(f) == [v |-> "ok", a |-> Strip(f)]
Rej == [v |-> "rej", a |-> <<>>]
Either(f) == [v |-> "either", a |-> Strip(f)]
AnyVerdict == [v |-> "open", a |-> <<>>]

UseAs(pos, val) ==
  IF val.t = "err" THEN Rej
  ELSE IF val.t = "open" THEN AnyVerdict
  ELSE CASE pos \in {"amount", "assign"} ->
              (IF val.t = "num" THEN (IF RIsZero(val.r) THEN Ok(<<>>) ELSE Rej)
               ELSE IF Cardinality(DOMAIN val.a) <= 1 THEN Ok(val.a)
               ELSE IF Cardinality(NonZero(val.a)) <= 1 THEN Either(val.a)
               ELSE Rej)
         [] pos \in {"cost", "lot"} ->
              (IF val.t = "num" THEN Rej
               ELSE IF CAllZero(val.a) THEN Rej                        \* zero rate (or nothing at all)
               ELSE IF Cardinality(DOMAIN val.a) = 1 THEN Ok(val.a)
               ELSE IF Cardinality(NonZero(val.a)) = 1 THEN Either(val.a)
               ELSE Rej)
         [] pos = "eval" ->
              (IF val.t = "num" THEN AnyVerdict ELSE Ok(val.a))

Positions == {"amount", "assign", "cost", "lot", "eval"}

\* ---------------------------------------------------------------- state (one sentence per initial state)
\* the sentence under consideration; initial states are supplied by the model-checking module
VARIABLE t
Next == UNCHANGED t

\* ---------------------------------------------------------------- properties
TreeMatchesTokens == EvalToks(Tokens(t)) = EvalTree(t)
=============================================================================
