----------------------------- MODULE LoaderTrace -----------------------------
(***************************************************************************)
(* Trace specification over Loader.tla (binding B for C11 / C06).          *)
(*                                                                         *)
(* The trace is an ndjson file of the events that Loader::load_impl itself *)
(* emits (core/src/load.rs under --cfg okane_verif) while it loads the     *)
(* file trees of TLC-generated behaviours, on the in-memory and on the     *)
(* real file system.  Each event is one action of Loader.tla:              *)
(*   enter (depth 1)  Open       enter (depth > 1)  Enter                  *)
(*   deliver          Deliver    descend / notfound Descend                *)
(*   cycle            Enter (the file is already on the include stack)     *)
(*   io               Open (the root does not exist)                       *)
(*   return           Return     end                Finish / the error     *)
(* and the fields the code logged (path, position within the file, stack   *)
(* depth, the sorted matches of an include) must equal the specification's *)
(* state.  Runs are separated by "fs" events that carry the file tree.     *)
(* The invariants of Loader.tla are evaluated in every state of every      *)
(* recorded run.                                                           *)
(***************************************************************************)
EXTENDS Loader, Json, IOUtils, TLCExt

Rec == ndJsonDeserialize(IOEnv.TRACE)

VARIABLE l          \* position in the trace
tvars == <<vars, l>>

Ev == Rec[l]
IsEvent(e) == l <= Len(Rec) /\ Ev.ev = e /\ l' = l + 1

\* the file tree of a run, in the shape MCLoader emits it
FsOf(fsseq) == [p \in Universe |->
                  IF \E i \in 1..Len(fsseq) : fsseq[i].path = p /\ ~fsseq[i].missing
                  THEN (LET i == CHOOSE i \in 1..Len(fsseq) : fsseq[i].path = p IN fsseq[i].items)
                  ELSE Missing]
Ended == status \in {"ok", "err_io", "err_notfound", "err_cycle"}

\* a new recorded run: everything back to the initial state, with this run's files
TFs == /\ IsEvent("fs")
       /\ Ended
       /\ Ev.root = Root
       /\ fs' = FsOf(Ev.fs) /\ stack' = <<>> /\ delivered' = <<>> /\ status' = "init"

NewTop == stack'[Len(stack')]

TEnter == /\ IsEvent("enter")
          /\ IF Ev.depth = 1 THEN Open ELSE Enter
          /\ status' = "run"
          /\ Len(stack') = Ev.depth
          /\ NewTop.path = Ev.path /\ NewTop.pos = 1 /\ NewTop.pend = <<>>

TIo == IsEvent("io") /\ Open /\ status' = "err_io"

TDeliver == /\ IsEvent("deliver")
            /\ Top.path = Ev.path /\ Top.pos = Ev.pos /\ Len(stack) = Ev.depth
            /\ Deliver

TDescend == /\ IsEvent("descend")
            /\ Top.path = Ev.path /\ Top.pos = Ev.pos /\ Len(stack) = Ev.depth
            /\ Descend
            /\ status' = "run"
            /\ NewTop.pend = Ev.matches                \* the matches, in the order they will be entered

TNotFound == /\ IsEvent("notfound")
             /\ Top.path = Ev.path /\ Top.pos = Ev.pos
             /\ Descend
             /\ status' = "err_notfound"

TCycle == /\ IsEvent("cycle")
          /\ status = "run" /\ stack # <<>> /\ Top.pend # <<>> /\ Head(Top.pend) = Ev.path
          /\ Enter
          /\ status' = "err_cycle"

TReturn == /\ IsEvent("return")
           /\ Top.path = Ev.path
           /\ Return
           /\ Len(stack') = Ev.depth

\* load() returned: Ok only after the last frame was popped, Err only after a failing step
TEnd == /\ IsEvent("end")
        /\ IF Ev.result = "ok" THEN Finish
           ELSE status \in {"err_io", "err_notfound", "err_cycle"} /\ UNCHANGED vars

TraceInit == /\ fs = [p \in Universe |-> Missing] /\ stack = <<>> /\ delivered = <<>> /\ status = "err_io"   \* no file at all: loading the root fails
             /\ l = 1
TraceNext == TFs \/ TEnter \/ TIo \/ TDeliver \/ TDescend \/ TNotFound \/ TCycle \/ TReturn \/ TEnd
TraceSpec == TraceInit /\ [][TraceNext]_tvars

\* one state per consumed event plus the initial state
TraceAccepted ==
  LET d == TLCGet("stats").diameter IN
  IF d - 1 = Len(Rec) THEN TRUE
  ELSE Print(<<"TRACE-REJECTED at event", d, IF d <= Len(Rec) THEN Rec[d] ELSE "end">>, FALSE)
=============================================================================
