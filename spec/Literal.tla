------------------------------ MODULE Literal ------------------------------
(***************************************************************************)
(* Numeric literals (okane_core::syntax::pretty_decimal).                  *)
(*                                                                         *)
(* Two independently written definitions of the same language:             *)
(*   - WellFormed / Value: declarative, by splitting the string at the     *)
(*     sign, the point and the commas;                                     *)
(*   - the scanner: one step per character with the accumulators the code  *)
(*     keeps (sign, digits, scale, digits since the last comma), the       *)
(*     INTENDED design: the last group must be complete at end of input,   *)
(*     one point, no comma after the point, at least one digit, growth of  *)
(*     the mantissa checked against the representable range.               *)
(* TLC checks that they agree on every string in the bound; the printer    *)
(* is checked to round-trip through the scanner.                           *)
(*                                                                         *)
(* Mantissas are kept as digit sequences (no machine integers), so 45-digit*)
(* literals and the 2^96 boundary are inside the model.                    *)
(***************************************************************************)
EXTENDS Integers, Sequences, FiniteSets, TLC

Digits == {"0", "1", "2", "3", "4", "5", "6", "7", "8", "9"}
DigitVal(c) == CASE c = "0" -> 0 [] c = "1" -> 1 [] c = "2" -> 2 [] c = "3" -> 3 [] c = "4" -> 4
                 [] c = "5" -> 5 [] c = "6" -> 6 [] c = "7" -> 7 [] c = "8" -> 8 [] c = "9" -> 9
IsDigit(c) == c \in Digits

\* 2^96 - 1, the largest mantissa of a 96-bit decimal
Max96 == <<"7","9","2","2","8","1","6","2","5","1","4","2","6","4","3","3","7","5","9","3","5","4","3","9","5","0","3","3","5">>
MaxScale == 28

\* ---------------------------------------------------------------- digit strings
RECURSIVE StripZeros(_)
StripZeros(d) == IF d # <<>> /\ d[1] = "0" THEN StripZeros(Tail(d)) ELSE d

\* lexicographic <= on digit strings of equal length
RECURSIVE LexLE(_, _)
LexLE(a, b) == IF a = <<>> THEN TRUE
               ELSE IF a[1] = b[1] THEN LexLE(Tail(a), Tail(b))
               ELSE DigitVal(a[1]) < DigitVal(b[1])
FitsMantissa(d) == LET s == StripZeros(d) IN
                   Len(s) < Len(Max96) \/ (Len(s) = Len(Max96) /\ LexLE(s, Max96))
Representable(d, scale) == scale <= MaxScale /\ FitsMantissa(d)

\* ---------------------------------------------------------------- declarative definition
AllDigits(s) == \A i \in 1..Len(s) : IsDigit(s[i])
Positions(s, c) == {i \in 1..Len(s) : s[i] = c}
StripCommas(s) == SelectSeq(s, LAMBDA c : c # ",")

\* integer part grouped by commas: first group 1..3 digits, every other group exactly 3
GroupedOK(s) ==
  LET cs == Positions(s, ",") IN
  /\ cs # {}
  /\ \A i \in 1..Len(s) : s[i] = "," \/ IsDigit(s[i])
  /\ (CHOOSE i \in cs : \A j \in cs : i <= j) \in 2..4
  /\ \A i \in cs : \/ i + 4 \in cs
                   \/ (i + 3 = Len(s) /\ \A j \in cs : j <= i)
IntOK(s) == AllDigits(s) \/ GroupedOK(s)

Body(str) == IF str # <<>> /\ str[1] = "-" THEN Tail(str) ELSE str
Dots(str) == Positions(Body(str), ".")
TheDot(str) == CHOOSE d \in Dots(str) : TRUE
IntPart(str) == IF Dots(str) = {} THEN Body(str) ELSE SubSeq(Body(str), 1, TheDot(str) - 1)
FracPart(str) == IF Dots(str) = {} THEN <<>> ELSE SubSeq(Body(str), TheDot(str) + 1, Len(Body(str)))

Syntactic(str) ==
  /\ Cardinality(Dots(str)) <= 1
  /\ IntOK(IntPart(str)) /\ AllDigits(FracPart(str))
  /\ Len(StripCommas(IntPart(str))) + Len(FracPart(str)) >= 1

\* the property speaks of "digits ... after a leading group"; a literal without any
\* integer digit (".5") is in neither the documented grammar nor clearly outside the
\* statement, so the verdict on it is left open (the value, if accepted, is not)
Lenient(str) == Syntactic(str) /\ StripCommas(IntPart(str)) = <<>>

AllDigitsOf(str) == StripCommas(IntPart(str)) \o FracPart(str)
WellFormed(str) == Syntactic(str) /\ Representable(AllDigitsOf(str), Len(FracPart(str)))

Value(str) ==
  [neg |-> str # <<>> /\ str[1] = "-",
   digs |-> StripZeros(AllDigitsOf(str)),
   scale |-> Len(FracPart(str)),
   fmt |-> IF Positions(IntPart(str), ",") # {} THEN "comma"
           ELSE IF Len(IntPart(str)) >= 4 THEN "plain" ELSE "none"]

\* ---------------------------------------------------------------- the scanner
\* st: phase "start" | "int" | "frac" | "fail"; grp = digits since the last comma (-1: no comma yet)
ScanInit == [phase |-> "start", neg |-> FALSE, digs |-> <<>>, scale |-> 0, ndig |-> 0, idig |-> 0, grp |-> -1, fmt |-> "none"]
FailSt(st) == [st EXCEPT !.phase = "fail"]

ScanStep(st, c, first) ==
  IF st.phase = "fail" THEN st
  ELSE IF c = "-" THEN (IF first THEN [st EXCEPT !.neg = TRUE] ELSE FailSt(st))
  ELSE IF IsDigit(c) THEN
     LET grown == StripZeros(Append(st.digs, c)) IN
     IF ~FitsMantissa(grown) THEN FailSt(st)                      \* mantissa would leave the 96-bit range
     ELSE IF st.phase = "frac" THEN
          (IF st.scale + 1 > MaxScale THEN FailSt(st)
           ELSE [st EXCEPT !.digs = grown, !.scale = @ + 1, !.ndig = @ + 1])
     ELSE IF st.grp = 3 THEN FailSt(st)                           \* a comma is required here
     ELSE [st EXCEPT !.phase = "int", !.digs = grown, !.ndig = @ + 1, !.idig = @ + 1,
                     !.grp = IF @ = -1 THEN -1 ELSE @ + 1,
                     !.fmt = IF st.grp = -1 /\ st.idig + 1 >= 4 THEN "plain" ELSE @]
  ELSE IF c = "," THEN
     IF st.phase = "frac" THEN FailSt(st)
     ELSE IF st.grp = -1 /\ st.idig \in 1..3 THEN [st EXCEPT !.grp = 0, !.fmt = "comma", !.phase = "int"]
     ELSE IF st.grp = 3 THEN [st EXCEPT !.grp = 0]
     ELSE FailSt(st)
  ELSE IF c = "." THEN
     IF st.phase = "frac" THEN FailSt(st)
     ELSE IF st.grp \in {-1, 3} THEN [st EXCEPT !.phase = "frac"]
     ELSE FailSt(st)
  ELSE FailSt(st)

\* end of input: at least one digit, and the last comma group complete
Accepts(st) == st.phase # "fail" /\ st.ndig >= 1 /\ (st.phase = "frac" \/ st.grp \in {-1, 3})
Result(st) == [neg |-> st.neg, digs |-> st.digs, scale |-> st.scale, fmt |-> st.fmt]

RECURSIVE ScanFrom(_, _, _)
ScanFrom(st, s, first) == IF s = <<>> THEN st ELSE ScanFrom(ScanStep(st, s[1], first), Tail(s), FALSE)
Scan(s) == ScanFrom(ScanInit, s, TRUE)

\* ---------------------------------------------------------------- the printer
RECURSIVE Zeros(_)
Zeros(n) == IF n <= 0 THEN <<>> ELSE <<"0">> \o Zeros(n - 1)

\* groups of three from the right, first group 1..3 digits
RECURSIVE Group3(_)
Group3(d) == IF Len(d) <= 3 THEN d
             ELSE LET k == IF Len(d) % 3 = 0 THEN 3 ELSE Len(d) % 3
                  IN SubSeq(d, 1, k) \o <<",">> \o Group3(SubSeq(d, k + 1, Len(d)))

Render(v) ==
  LET d == IF Len(v.digs) >= v.scale + 1 THEN v.digs ELSE Zeros(v.scale + 1 - Len(v.digs)) \o v.digs
      ip == SubSeq(d, 1, Len(d) - v.scale)
      fp == SubSeq(d, Len(d) - v.scale + 1, Len(d))
  IN (IF v.neg /\ v.digs # <<>> THEN <<"-">> ELSE <<>>)
     \o (IF v.fmt = "comma" THEN Group3(ip) ELSE ip)
     \o (IF v.scale > 0 THEN <<".">> \o fp ELSE <<>>)

\* equality of values up to what printing can preserve: a grouping style is visible
\* only when there are thousands to group; the sign of zero is not a value
Groupable(v) == Len(v.digs) - v.scale >= 4
SameValue(a, b) ==
  /\ a.digs = b.digs /\ a.scale = b.scale
  /\ (a.digs # <<>> => a.neg = b.neg)
  /\ (Groupable(a) => a.fmt = b.fmt)

\* ---------------------------------------------------------------- state machine for TLC
CONSTANTS Alphabet, MaxLen
VARIABLES inp, st
lvars == <<inp, st>>

Init == inp = <<>> /\ st = ScanInit
Step(c) == /\ Len(inp) < MaxLen
           /\ inp' = Append(inp, c)
           /\ st' = ScanStep(st, c, inp = <<>>)
Next == \E c \in Alphabet : Step(c)
Spec == Init /\ [][Next]_lvars

\* ---------------------------------------------------------------- properties (C07)
ScannerMatchesGrammar ==
  /\ Accepts(st) <=> WellFormed(inp)
  /\ Accepts(st) => Result(st) = Value(inp)

\* a failed prefix never becomes well-formed again (the scanner may stop at the first error)
FailSticky == st.phase = "fail" => ~WellFormed(inp)

PrintParseRoundTrip ==
  WellFormed(inp) =>
     LET v == Value(inp)
         p == Render(v)
     IN /\ Accepts(Scan(p))
        /\ SameValue(Result(Scan(p)), v)
        /\ WellFormed(p)

\* printing never produces a different number of decimal places, and canonical text is a fixed point
Canonical(s) == WellFormed(s) /\ Render(Value(s)) = s
PrintIdempotent == WellFormed(inp) => Canonical(Render(Value(inp)))
=============================================================================
