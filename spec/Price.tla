-------------------------------- MODULE Price --------------------------------
(***************************************************************************)
(* Commodity prices and conversion (report::price_db).                     *)
(*                                                                         *)
(* State: the sequence of price events in the order the code receives      *)
(* them - ledger-derived ones (costs, lot prices, implied exchanges) in    *)
(* file order, then the lines of the price database.                       *)
(* A rate is an exponent pair <<a, b>> standing for 2^a * 5^b, so products *)
(* and reciprocals are exact here and in Decimal.                          *)
(* An event [src, date, of, with, r] says: 1 `of` = r `with` on `date`.    *)
(*                                                                         *)
(* Conversion is defined by brute force over all simple chains - on        *)
(* purpose not the code's Dijkstra.                                        *)
(***************************************************************************)
EXTENDS Integers, Sequences, FiniteSets, TLC

VARIABLES events,   \* price events so far
          phase     \* "ledger" | "db" | "done"
pvars == <<events, phase>>

RMul(r1, r2) == <<r1[1] + r2[1], r1[2] + r2[2]>>
RInv(r) == <<-r[1], -r[2]>>
ROne == <<0, 0>>

PInit == events = <<>> /\ phase = "ledger"
\* cost / lot / implied exchange seen while reading the ledger
InsertLedger(e) == /\ phase = "ledger" /\ e.src = "ledger" /\ e.of # e.with
                   /\ events' = Append(events, e) /\ UNCHANGED phase
EndLedger == phase = "ledger" /\ phase' = "db" /\ UNCHANGED events
\* a line of the price database, loaded after the whole ledger
InsertDb(e) == /\ phase = "db" /\ e.src = "db" /\ e.of # e.with
               /\ events' = Append(events, e) /\ UNCHANGED phase
EndDb == phase = "db" /\ phase' = "done" /\ UNCHANGED events

\* ---------------------------------------------------------------- the repository
\* directed entries derived from one event: the price and its reciprocal
Directed(e) == {[src |-> e.src, date |-> e.date, of |-> e.of, with |-> e.with, r |-> e.r],
                [src |-> e.src, date |-> e.date, of |-> e.with, with |-> e.of, r |-> RInv(e.r)]}
AllDirected == UNION {Directed(events[i]) : i \in 1..Len(events)}
\* prices of `of` expressed in `with`; database prices replace ledger-derived ones of the same pair
PairEntries(of, with) ==
  LET all == {d \in AllDirected : d.of = of /\ d.with = with}
      db == {d \in all : d.src = "db"}
  IN IF db # {} THEN db ELSE all
\* the most recent entries dated on or before `day` (several on the same day: any of them)
AsOf(of, with, day) ==
  LET ok == {d \in PairEntries(of, with) : d.date <= day} IN
  {d \in ok : \A x \in ok : x.date <= d.date}

Commodities == UNION {{events[i].of, events[i].with} : i \in 1..Len(events)}

\* ---------------------------------------------------------------- chains
\* simple paths from a to b through known commodities, as sequences of commodities
RECURSIVE PathsFrom(_, _, _)
PathsFrom(path, b, left) ==
  LET cur == path[Len(path)] IN
  IF cur = b THEN {path}
  ELSE UNION {PathsFrom(Append(path, n), b, left \ {n}) : n \in left}
SimplePaths(a, b) == PathsFrom(<<a>>, b, Commodities \ {a})

\* all ways to price every step of a path as of `day`:
\* set of records [ledger, steps, stmax, stsum, r]
RECURSIVE Walk(_, _, _)
Walk(path, i, day) ==
  IF i = Len(path) THEN {[ledger |-> 0, steps |-> 0, stmax |-> 0, stsum |-> 0, r |-> ROne]}
  ELSE LET rest == Walk(path, i + 1, day)
           here == AsOf(path[i], path[i + 1], day)
       IN {[ledger |-> w.ledger + (IF d.src = "ledger" THEN 1 ELSE 0),
            steps |-> w.steps + 1,
            stmax |-> IF day - d.date > w.stmax THEN day - d.date ELSE w.stmax,
            stsum |-> w.stsum + (day - d.date),
            r |-> RMul(d.r, w.r)] : w \in rest, d \in here}
Candidates(a, b, day) == UNION {Walk(p, 1, day) : p \in SimplePaths(a, b)}

LessMax(x, y) == \/ x.ledger < y.ledger
                 \/ x.ledger = y.ledger /\ x.steps < y.steps
                 \/ x.ledger = y.ledger /\ x.steps = y.steps /\ x.stmax < y.stmax
LessSum(x, y) == \/ x.ledger < y.ledger
                 \/ x.ledger = y.ledger /\ x.steps < y.steps
                 \/ x.ledger = y.ledger /\ x.steps = y.steps /\ x.stsum < y.stsum

\* Rates the property admits for converting a into b as of day: fewest ledger-derived
\* steps, then fewest steps, then least stale.  The statement does not say how the
\* staleness of a multi-step chain is aggregated, so the chains minimal under the
\* stalest-step reading and under the total-staleness reading are both admitted
\* (they coincide for single-step chains).  Empty set: the conversion fails.
Convert(a, b, day) ==
  IF a = b THEN {ROne}
  ELSE IF a \notin Commodities \/ b \notin Commodities THEN {}
  ELSE LET C == Candidates(a, b, day) IN
       {x.r : x \in {x \in C : \A y \in C : ~LessMax(y, x)}} \cup {x.r : x \in {x \in C : \A y \in C : ~LessSum(y, x)}}

\* ---------------------------------------------------------------- properties of the definition
Days == 0..5
ReciprocalConsistent ==
  \A a, b \in Commodities : \A d \in Days :
     {x.r : x \in AsOf(a, b, d)} = {RInv(x.r) : x \in AsOf(b, a, d)}
NoFuturePrice == \A a, b \in Commodities : \A d \in Days : \A x \in AsOf(a, b, d) : x.date <= d
DbShadowsLedger ==
  \A a, b \in Commodities : (\E x \in AllDirected : x.of = a /\ x.with = b /\ x.src = "db")
      => \A x \in PairEntries(a, b) : x.src = "db"
\* a direct database price beats every detour
DirectDbWins ==
  \A a, b \in Commodities : \A d \in Days :
     (a # b /\ \E x \in AsOf(a, b, d) : x.src = "db") => Convert(a, b, d) = {x.r : x \in AsOf(a, b, d)}
\* converting there and back along admissible rates can return the unit
RoundTrip == \A a, b \in Commodities : \A d \in Days :
     Convert(a, b, d) # {} => \E r1 \in Convert(a, b, d), r2 \in Convert(b, a, d) : RMul(r1, r2) = ROne
FailsIffNoChain == \A a, b \in Commodities : \A d \in Days :
     (Convert(a, b, d) = {}) <=> (a # b /\ Candidates(a, b, d) = {})
=============================================================================
