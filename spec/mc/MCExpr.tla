------------------------------- MODULE MCExpr -------------------------------
(* Bounded sentence sets for Expr.tla, concrete rendering, emission.         *)
EXTENDS Expr, Json

Amt(txt, n, d, c) == [k |-> "amt", r |-> R(n, d), c |-> c, txt |-> IF c = "" THEN txt ELSE txt \o " " \o c, e |-> <<>>]
Par(a) == [k |-> "par", r |-> RZero, c |-> "", txt |-> "", e |-> a]
Un(neg, v) == [neg |-> neg, v |-> v]

\* ---- building the grammar's derivation from a flat list of operands and operators
\* us: <<u1..un>>, os: <<o1..o(n-1)>>; * and / bind tighter (that is the grammar, not an evaluation rule)
RECURSIVE MulFrom(_, _, _, _)
\* consumes operands from index i while the operator before them is * or /; returns [m |-> mul, next |-> index of the next + or - (or n)]
MulFrom(us, os, i, m) ==
  IF i > Len(os) \/ os[i] \in {"+", "-"} THEN [m |-> m, next |-> i]
  ELSE MulFrom(us, os, i + 1, [m EXCEPT !.rest = Append(@, [op |-> os[i], x |-> us[i + 1]])])
RECURSIVE AddFrom(_, _, _, _)
AddFrom(us, os, i, a) ==
  IF i > Len(os) THEN a
  ELSE LET g == MulFrom(us, os, i + 1, [first |-> us[i + 1], rest |-> <<>>])
       IN AddFrom(us, os, g.next, [a EXCEPT !.rest = Append(@, [op |-> os[i], x |-> g.m])])
Build(us, os) ==
  LET g == MulFrom(us, os, 1, [first |-> us[1], rest |-> <<>>])
  IN AddFrom(us, os, g.next, [first |-> g.m, rest |-> <<>>])

Ops == {"+", "-", "*", "/"}
A0 == {Amt("0", 0, 1, ""), Amt("2", 2, 1, ""), Amt("0.5", 1, 2, ""), Amt("1", 1, 1, "X"), Amt("2", 2, 1, "X"),
       Amt("0", 0, 1, "X"), Amt("4", 4, 1, "Y"), Amt("1", 1, 1, "Y")}
\* a literal may carry its own minus sign (C07), and a unary minus may precede it: `--1 X` is 1 X
NegLits == {Amt("-2", -2, 1, ""), Amt("-1", -1, 1, "X")}
U0 == {Un(FALSE, a) : a \in A0} \cup {Un(TRUE, Amt("2", 2, 1, "")), Un(TRUE, Amt("1", 1, 1, "X"))}
      \cup {Un(FALSE, a) : a \in NegLits} \cup {Un(TRUE, a) : a \in NegLits}
ASmall == {Amt("2", 2, 1, ""), Amt("0", 0, 1, ""), Amt("1", 1, 1, "X"), Amt("2", 2, 1, "X"), Amt("4", 4, 1, "Y"), Amt("0.5", 1, 2, "")}
USmall == {Un(FALSE, a) : a \in ASmall}

\* Sentence sets are drawn by the initial predicate (never built as constant sets: TLC
\* evaluates constant definitions eagerly and its set union is quadratic).
CONSTANT Shapes
Inner(u1, u2, o) == Par(Build(<<u1, u2>>, <<o>>))
MCInit ==
  \/ "s0" \in Shapes /\ ((\E a \in A0 : t = a) \/ (\E u \in U0 : t = Par(Build(<<u>>, <<>>))))
  \/ "s1" \in Shapes /\ \E u1 \in U0, u2 \in U0, o \in Ops : t = Par(Build(<<u1, u2>>, <<o>>))
  \/ "s2" \in Shapes /\ \E u1 \in U0, u2 \in U0, u3 \in U0, o1 \in Ops, o2 \in Ops : t = Par(Build(<<u1, u2, u3>>, <<o1, o2>>))
  \/ "sp" \in Shapes /\ \E n \in BOOLEAN, i1 \in USmall, i2 \in USmall, io \in Ops, u \in U0, o \in Ops, left \in BOOLEAN :
        t = IF left THEN Par(Build(<<Un(n, Inner(i1, i2, io)), u>>, <<o>>)) ELSE Par(Build(<<u, Un(n, Inner(i1, i2, io))>>, <<o>>))
  \/ "s3" \in Shapes /\ \E u1 \in USmall, u2 \in USmall, u3 \in USmall, u4 \in USmall, o1 \in Ops, o2 \in Ops, o3 \in Ops :
        t = Par(Build(<<u1, u2, u3, u4>>, <<o1, o2, o3>>))
  \/ "spp" \in Shapes /\ \E n \in BOOLEAN, i1 \in USmall, i2 \in USmall, io \in Ops, v \in USmall, o1 \in Ops, u \in USmall, o2 \in Ops :
        t = Par(Build(<<u, Un(FALSE, Par(Build(<<Un(n, Inner(i1, i2, io)), v>>, <<o1>>)))>>, <<o2>>))
MCSpec == MCInit /\ [][Next]_t

\* ---- concrete text
RECURSIVE RenderFrom(_, _, _)
RenderFrom(toks, i, style) ==
  IF i > Len(toks) THEN ""
  ELSE LET tk == toks[i]
           bin == tk.k = "op" /\ tk.s \in Ops /\ Binary(toks, i)
           \* a binary minus directly after a bare number would be swallowed by the greedy literal
           \* token ("1-2"); that spelling belongs to C05, here it is always spaced
           spaced == bin /\ (style = "spaced" \/ (tk.s = "-" /\ toks[i - 1].k = "amt" /\ toks[i - 1].c = ""))
       IN (IF spaced THEN " " \o tk.txt \o " " ELSE tk.txt) \o RenderFrom(toks, i + 1, style)
Render(v, style) == RenderFrom(Tokens(v), 1, style)

ValJson(val) == [t |-> val.t, r |-> <<val.r.n, val.r.d>>,
                 a |-> IF val.t = "comm" THEN [c \in DOMAIN val.a |-> <<val.a[c].n, val.a[c].d>>] ELSE [c \in {} |-> <<0, 1>>]]
UseJson(u) == [v |-> u.v, a |-> IF u.v \in {"ok", "either"} THEN [c \in DOMAIN u.a |-> <<u.a[c].n, u.a[c].d>>] ELSE [c \in {} |-> <<0, 1>>]]

NOps(toks) == Cardinality({i \in 1..Len(toks) : toks[i].k = "op" /\ toks[i].s \in Ops /\ Binary(toks, i)})
Emit == PrintT(<<"REPLAY", ToJson([module |-> "Expr", spaced |-> Render(t, "spaced"), tight |-> Render(t, "tight"),
                                   nops |-> NOps(Tokens(t)),
                                   value |-> ValJson(EvalTree(t)),
                                   uses |-> [p \in Positions |-> UseJson(UseAs(p, EvalTree(t)))]])>>)

=============================================================================
