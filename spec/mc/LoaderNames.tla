---------------------------- MODULE LoaderNames ----------------------------
(* Names, paths and universes shared by MCLoader.tla and MCLoaderTrace.tla (pure constants). *)
EXTENDS Sequences
\* ---------------------------------------------------------------- names
\* byte order: '-' (2D) < '.' (2E) < ['/' (2F), the separator, never inside a name] < 'a' < 'b' < 'c' < 'h' < 'l' < 'm' < 'r' < 's' < 't' < 'x'
MCCharOrder == <<"-", ".", "a", "b", "c", "d", "h", "l", "m", "r", "s", "t", "x">>
N_m == <<"m", ".", "l">>
N_a == <<"a", ".", "l">>
N_b == <<"b", ".", "l">>
N_ab == <<"a", "b", ".", "l">>
N_c == <<"c", ".", "l">>
N_h == <<".", "h", ".", "l">>
N_t == <<"c", ".", "t">>
N_x == <<"x", ".", "l">>
D_r == <<"r">>
D_s == <<"s">>
D_d == <<"d">>
D_sx == <<"s", "-">>          \* a directory whose name extends another's by a byte below the separator: paths sort by component, not as strings
D_t == <<"t">>
Star_l == <<"*", ".", "l">>
Q_l == <<"?", ".", "l">>
A_star == <<"a", "*">>
Star == <<"*", ".", "?">>     \* files only: directory names in the universes have no dot
DStar == <<"*">>               \* used for directory components only

MCRoot == <<D_r, N_m>>

ArbUniverse == {MCRoot, <<D_r, N_a>>, <<D_r, D_s, N_b>>}

ArbUniverseT == ArbUniverse \cup {<<D_r, D_s, N_a>>}

GlobUniverse == {MCRoot, <<D_r, N_a>>, <<D_r, N_b>>, <<D_r, N_ab>>, <<D_r, N_h>>, <<D_r, N_t>>,
                 <<D_r, D_s, N_a>>, <<D_r, D_s, N_c>>, <<D_r, D_d, N_a>>, <<D_r, D_d, N_x>>, <<D_r, D_sx, N_a>>}

SplitUniverse == {MCRoot, <<D_r, N_a>>, <<D_r, N_b>>, <<D_r, D_s, N_a>>, <<D_r, D_s, N_c>>, <<D_r, D_s, D_t, N_b>>}
\* every path of any scenario (the universe of recorded traces)
AllUniverse == ArbUniverseT \cup GlobUniverse \cup SplitUniverse
=============================================================================
