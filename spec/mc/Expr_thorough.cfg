SPECIFICATION MCSpec
CONSTANTS
  Shapes = {"s3", "spp"}
INVARIANT TreeMatchesTokens
INVARIANT Emit
CHECK_DEADLOCK FALSE
