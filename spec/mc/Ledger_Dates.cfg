SPECIFICATION MCSpec
CONSTANTS
  Script <- ScriptDates
  Scenario = "Dates"
INVARIANT AcceptedBalanced
INVARIANT RawEqualsFold
INVARIANT NoZeroCommodity
INVARIANT WholeIsRegister
INVARIANT WholeRangeAgrees
INVARIANT RangeAdditive
INVARIANT HalfOpen
INVARIANT NoZeroShown
INVARIANT EmitRanges
CHECK_DEADLOCK FALSE
