SPECIFICATION MCSpec
CONSTANTS
  Universe <- GlobUniverse
  Root <- MCRoot
  CharOrder <- MCCharOrder
  Patterns <- GlobPatterns
  Scenario = "glob"
  MaxItems = 0
  NEntries = 0
  MaxSplits = 0
INVARIANT DeliveredIsFlatten
INVARIANT IncludeNeverDelivered
INVARIANT StackSimple
INVARIANT NoStuck
INVARIANT Emit
CHECK_DEADLOCK FALSE
