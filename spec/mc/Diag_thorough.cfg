SPECIFICATION MCSpec
CONSTANTS
  MaxPre = 3
INVARIANT LineArithmetic
INVARIANT Emit
CHECK_DEADLOCK FALSE
