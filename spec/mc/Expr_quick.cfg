SPECIFICATION MCSpec
CONSTANTS
  Shapes = {"s0", "s1", "s2", "sp"}
INVARIANT TreeMatchesTokens
INVARIANT Emit
CHECK_DEADLOCK FALSE
