SPECIFICATION MCSpec
CONSTANTS
  Universe <- ArbUniverseT
  Root <- MCRoot
  CharOrder <- MCCharOrder
  Patterns <- ArbPatternsT
  Scenario = "arb"
  MaxItems = 1
  NEntries = 0
  MaxSplits = 0
INVARIANT DeliveredIsFlatten
INVARIANT IncludeNeverDelivered
INVARIANT StackSimple
INVARIANT NoStuck
INVARIANT Emit
CHECK_DEADLOCK FALSE
