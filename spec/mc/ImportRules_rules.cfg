SPECIFICATION MCSpec
CONSTANTS
  MatchTable <- MCMatchTable
  Scenario = "rules"
  MaxRules = 3
INVARIANT FoldIsLeftToRight
INVARIANT LayersAgree
INVARIANT Emit
CHECK_DEADLOCK FALSE
