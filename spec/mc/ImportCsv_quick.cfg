SPECIFICATION MCSpec
CONSTANTS
  MaxRows = 2
INVARIANT DesignOK
INVARIANT Emit
CHECK_DEADLOCK FALSE
