SPECIFICATION MCSpec
CONSTANTS
  Scenario = "styles"
INVARIANT CanonLayoutOK
INVARIANT CanonIsARendering
INVARIANT Emit
CHECK_DEADLOCK FALSE
