SPECIFICATION MCSpec
CONSTANTS
  Scenario = "random"
INVARIANT CanonLayoutOK
INVARIANT CanonIsARendering
INVARIANT Emit
CHECK_DEADLOCK FALSE
