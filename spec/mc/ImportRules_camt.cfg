SPECIFICATION MCSpec
CONSTANTS
  MatchTable <- CamtMatchTable
  Scenario = "camt"
  MaxRules = 1
INVARIANT FoldIsLeftToRight
INVARIANT Emit
CHECK_DEADLOCK FALSE
