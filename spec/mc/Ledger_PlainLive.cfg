SPECIFICATION MCSpecFair
CONSTANTS
  Script <- ScriptPlain
  Scenario = "Plain"
INVARIANT AcceptedBalanced
INVARIANT RejectJustified
INVARIANT AssertionsTrue
INVARIANT AssignExact
INVARIANT RawEqualsFold
INVARIANT NoZeroCommodity
INVARIANT CanonicalOnly
INVARIANT LookupCanonical
INVARIANT NoStuck
CHECK_DEADLOCK FALSE
PROPERTY Termination
