SPECIFICATION LongSpec
CONSTANTS
  Alphabet = {"0"}
  MaxLen = 46
INVARIANT ScannerMatchesGrammar
INVARIANT FailSticky
INVARIANT EmitLong
CHECK_DEADLOCK FALSE
