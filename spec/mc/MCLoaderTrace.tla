--------------------------- MODULE MCLoaderTrace ---------------------------
(* Constants of LoaderTrace.tla: the universe is every path of any scenario of MCLoader.tla *)
(* (a run's own files are given by its "fs" event), the root is the one they all use.       *)
EXTENDS LoaderTrace, LoaderNames
NoPatterns == {}
=============================================================================
