SPECIFICATION MCSpec
CONSTANTS
  MaxPre = 2
INVARIANT LineArithmetic
INVARIANT Emit
CHECK_DEADLOCK FALSE
