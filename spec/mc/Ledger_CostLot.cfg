SPECIFICATION MCSpec
CONSTANTS
  Script <- ScriptCostLot
  Scenario = "CostLot"
INVARIANT AcceptedBalanced
INVARIANT RejectJustified
INVARIANT AssertionsTrue
INVARIANT AssignExact
INVARIANT RawEqualsFold
INVARIANT NoZeroCommodity
INVARIANT CanonicalOnly
INVARIANT LookupCanonical
INVARIANT NoStuck
INVARIANT Emit
CHECK_DEADLOCK FALSE
