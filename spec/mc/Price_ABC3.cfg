SPECIFICATION MCSpec
CONSTANTS
  Choices <- ChoicesABC3
  MaxEvents = 3
  Scenario = "ABC3"
  Fixed <- NoFixed
INVARIANT InvReciprocal
INVARIANT InvNoFuture
INVARIANT InvDbShadows
INVARIANT InvDirectDb
INVARIANT InvRoundTrip
INVARIANT InvFails
INVARIANT Emit
CHECK_DEADLOCK FALSE
