SPECIFICATION MCSpec
CONSTANTS
  Choices <- ChoicesABC
  MaxEvents = 2
  Scenario = "ABC2"
  Fixed <- NoFixed
INVARIANT InvReciprocal
INVARIANT InvNoFuture
INVARIANT InvDbShadows
INVARIANT InvDirectDb
INVARIANT InvRoundTrip
INVARIANT InvFails
INVARIANT Emit
CHECK_DEADLOCK FALSE
