----------------------------- MODULE MCTotality -----------------------------
(* Seeds from the Syntax catalogue, token alphabet, emission.                 *)
EXTENDS Totality, Json

S == INSTANCE MCSyntax WITH Scenario <- "features", doc <- [entries |-> <<>>, style |-> <<>>, tag |-> ""]

CRLF == [S!Base EXCEPT !.nl = "\r\n"]
Tabs == [S!Base EXCEPT !.sep = "\t", !.indent = "\t"]
Tight == [S!Base EXCEPT !.eq = "=", !.at = "@", !.op = "tight", !.amtsp = "", !.meta1 = "inline"]
SeedTexts == {S!Render(<<e>>, st) : e \in S!Catalogue, st \in {S!Base, CRLF, Tabs, Tight}}
             \cup {S!Render(<<e1, e2>>, S!Base) : e1 \in S!HeaderShapes, e2 \in S!Directives}
\* a dozen texts covering every construct, for the insertion scenario
InsertSeedTexts == {S!Render(<<e>>, S!Base) : e \in S!HeaderShapes} \cup {S!Render(<<e>>, S!Base) : e \in S!Directives}
                   \cup {S!Render(<<S!Txn(S!D1, S!D2, "*", "c", "P", <<S!MComment("n")>>, <<p, S!POmit(S!AcctA)>>)>>, S!Base) :
                           p \in {q \in S!PostingShapes : q.lot.price # S!None \/ q.cost # S!None \/ q.metadata # <<>> \/ (q.amount # S!None /\ q.amount.t = "paren")}}

Alphabet == {";", "#", "*", "!", "(", ")", "{", "}", "{{", "}}", "[", "]", "@", "@@", "=", "  ", "\t", "\n", "\r", "\r\n", ",", ".", "-", "+", "/", ":", "::",
             "0", "9", "include ", "account ", "commodity ", "apply tag ", "end apply tag", "2024/01/01", "    alias ", "    format ", "P ",
             "é", "日本", "　", "́", "﻿", "​", "⟦NUL⟧", "⟦EMOJI⟧", " ", "�", " "}
MCNestDepths == {1, 10, 100, 1000, 5000, 20000}

\* history-free state space: one line per distinct text
Emit == steps > 0 => PrintT(<<"REPLAY", ToJson([module |-> "Totality", op |-> lastop, steps |-> steps, text |-> text])>>)
EmitSeeds == PrintT(<<"REPLAY", ToJson([module |-> "Totality", op |-> lastop, steps |-> steps, text |-> text])>>)
=============================================================================
