----------------------------- MODULE MCTotality -----------------------------
(* Seeds from the Syntax catalogue, token alphabet, emission.                 *)
EXTENDS Totality, Json

CONSTANT Kind   \* "ledger": the text is a ledger file; "pricedb": the text is a price database loaded next to a fixed ledger

S == INSTANCE MCSyntax WITH Scenario <- "features", doc <- [entries |-> <<>>, style |-> <<>>, tag |-> ""]

CRLF == [S!Base EXCEPT !.nl = "\r\n"]
Tabs == [S!Base EXCEPT !.sep = "\t", !.indent = "\t"]
Tight == [S!Base EXCEPT !.eq = "=", !.at = "@", !.op = "tight", !.amtsp = "", !.meta1 = "inline"]
SeedTexts == {S!Render(<<e>>, st) : e \in S!Catalogue, st \in {S!Base, CRLF, Tabs, Tight}}
             \cup {S!Render(<<e1, e2>>, S!Base) : e1 \in S!HeaderShapes, e2 \in S!Directives}
\* a dozen texts covering every construct, for the insertion scenario
InsertSeedTexts == {S!Render(<<e>>, S!Base) : e \in S!HeaderShapes} \cup {S!Render(<<e>>, S!Base) : e \in S!Directives}
                   \cup {S!Render(<<S!Txn(S!D1, S!D2, "*", "c", "P", <<S!MComment("n")>>, <<p, S!POmit(S!AcctA)>>)>>, S!Base) :
                           p \in {q \in S!PostingShapes : q.lot.price # S!None \/ q.cost # S!None \/ q.metadata # <<>> \/ (q.amount # S!None /\ q.amount.t = "paren")}}

\* price databases: `P date commodity amount` lines in both date styles, grouped and plain numbers, blank
\* lines between entries, CRLF ends, a missing final newline, a reciprocal pair, a zero rate, a self rate
PriceLines == <<"P 2024/01/01 EUR 1.10 USD", "P 2024-02-01 EUR 1,234.5 JPY", "P 2024/02/10 CHF 0.95 EUR", "P 2024/03/01 USD 0.9 EUR",
                "P 2023/06/01 JPY 0.0062 CHF", "P 2024/01/15 EUR 0 USD", "P 2024/01/20 USD 1 USD", "P 2024/02/20 EUR -1.2 USD">>
RECURSIVE JoinLines(_, _, _)
JoinLines(ls, nl, i) == IF i > Len(ls) THEN "" ELSE ls[i] \o nl \o JoinLines(ls, nl, i + 1)
PriceSeedTexts == {JoinLines(PriceLines, "\n", 1), JoinLines(PriceLines, "\r\n", 1), JoinLines(PriceLines, "\n\n", 1),
                   JoinLines(SubSeq(PriceLines, 1, 3), "\n", 1) \o "P 2024/04/01 EUR 1.3 USD",
                   "\n\n" \o JoinLines(SubSeq(PriceLines, 1, 2), "\n", 1) \o "\n\n"}
              \cup {PriceLines[i] \o "\n" : i \in 1..Len(PriceLines)}
PriceAlphabet == {"\"", "include \"", ";", "#", "P ", "P", " ", "  ", "\t", "\n", "\r", "\r\n", ",", ".", "-", "+", "/", "0", "9", "(", ")", "@", "=", "{", "2024/01/01", "2024-13-01", "EUR", "\"a b\"",
                  "é", "日本", "　", "́", "﻿", "⟦NUL⟧", "⟦EMOJI⟧", "1e5", "0.000001"}

Alphabet == {"\"", "include \"", ";", "#", "*", "!", "(", ")", "{", "}", "{{", "}}", "[", "]", "@", "@@", "=", "  ", "\t", "\n", "\r", "\r\n", ",", ".", "-", "+", "/", ":", "::",
             "0", "9", "include ", "account ", "commodity ", "apply tag ", "end apply tag", "2024/01/01", "    alias ", "    format ", "P ",
             "é", "日本", "　", "́", "﻿", "​", "⟦NUL⟧", "⟦EMOJI⟧", " ", "�", " "}
MCNestDepths == {1, 10, 100, 1000, 5000, 20000, 60000}
NoDepths == {}

\* history-free state space: one line per distinct text
Emit == steps > 0 => PrintT(<<"REPLAY", ToJson([module |-> "Totality", kind |-> Kind, op |-> lastop, steps |-> steps, text |-> text])>>)
EmitSeeds == PrintT(<<"REPLAY", ToJson([module |-> "Totality", kind |-> Kind, op |-> lastop, steps |-> steps, text |-> text])>>)
=============================================================================
