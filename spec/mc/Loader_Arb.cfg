SPECIFICATION MCSpec
CONSTANTS
  Universe <- ArbUniverse
  Root <- MCRoot
  CharOrder <- MCCharOrder
  Patterns <- ArbPatterns
  Scenario = "arb"
  MaxItems = 2
  NEntries = 0
  MaxSplits = 0
INVARIANT DeliveredIsFlatten
INVARIANT IncludeNeverDelivered
INVARIANT StackSimple
INVARIANT NoStuck
INVARIANT Emit
CHECK_DEADLOCK FALSE
