SPECIFICATION MCSpec
CONSTANTS
  Scenario = "features"
INVARIANT CanonLayoutOK
INVARIANT CanonIsARendering
INVARIANT Emit
CHECK_DEADLOCK FALSE
