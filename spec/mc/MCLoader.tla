------------------------------ MODULE MCLoader ------------------------------
(* Bounded scenarios for Loader.tla and emission of behaviours for replay.  *)
EXTENDS Loader, LoaderNames, Json

CONSTANTS Scenario,     \* "arb" | "split" | "glob"
          MaxItems,     \* arb: items per file
          NEntries,     \* split: entries of the flat ledger
          MaxSplits     \* split: number of cuts

VARIABLE nsplit
mcvars == <<vars, nsplit>>

P(up, comps) == [up |-> up, comps |-> comps]

\* ---------------------------------------------------------------- arbitrary small file systems
\* three files (root, a sibling, one in a sub-directory); includes that hit, miss, cycle,
\* go up, and glob; every content of <= MaxItems items
ArbPatterns == {P(0, <<N_a>>), P(0, <<D_s, N_b>>), P(1, <<N_m>>), P(1, <<N_a>>), P(0, <<Star_l>>), P(0, <<N_x>>)}
ArbPatternsT == ArbPatterns \cup {P(0, <<N_b>>), P(0, <<D_s, Star_l>>), P(1, <<Star_l>>), P(0, <<DStar, N_b>>), P(0, <<N_m>>)}


SeqsUpTo(S, n) == UNION {[1..m -> S] : m \in 0..n}
\* entry ids are positions, so a content is determined by which slots are includes
ArbItems(pats) == {Ent(0)} \cup {Inc(p) : p \in pats}
Number(c) == [i \in 1..Len(c) |-> IF IsInc(c[i]) THEN c[i] ELSE Ent(i)]
ArbContents(pats) == {Number(c) : c \in SeqsUpTo(ArbItems(pats), MaxItems)}

\* ---------------------------------------------------------------- glob semantics
\* the root includes one pattern; any subset of a universe with dot-files, another
\* extension, a longer name and two directories exists
GlobPatterns == {P(0, <<Star_l>>), P(0, <<Q_l>>), P(0, <<A_star>>), P(0, <<Star>>), P(0, <<N_h>>),
                 P(0, <<D_s, Star_l>>), P(0, <<DStar, N_a>>), P(0, <<DStar, Star_l>>)}

\* ---------------------------------------------------------------- splitting
SplitPatterns == {P(0, <<N_a>>), P(0, <<N_b>>), P(0, <<D_s, N_a>>), P(0, <<D_s, N_c>>), P(0, <<D_s, D_t, N_b>>), P(0, <<D_t, N_b>>),
                  P(1, <<N_a>>), P(1, <<N_b>>), P(2, <<N_a>>), P(2, <<N_b>>), P(1, <<D_s, N_c>>), P(1, <<N_c>>),
                  P(0, <<Star_l>>), P(0, <<D_s, Star_l>>), P(1, <<Star_l>>), P(0, <<Q_l>>), P(0, <<DStar, N_a>>)}

\* ---------------------------------------------------------------- init per scenario
MCInit ==
  /\ stack = <<>> /\ delivered = <<>> /\ status = "init" /\ nsplit = 0
  /\ CASE Scenario = "arb" ->
            fs \in {f \in [Universe -> ArbContents(Patterns) \cup {Missing}] : f[Root] # Missing}
       [] Scenario = "glob" ->
            \E present \in SUBSET (Universe \ {Root}), pat \in Patterns :
               fs = [p \in Universe |-> IF p = Root THEN <<Ent(1), Inc(pat), Ent(3)>>
                                        ELSE IF p \in present THEN <<Ent(1)>> ELSE Missing]
       [] Scenario = "split" ->
            fs = [p \in Universe |-> IF p = Root THEN [i \in 1..NEntries |-> Ent(i)] ELSE Missing]

MCNext ==
  \/ Load /\ UNCHANGED nsplit
  \/ Scenario = "split" /\ nsplit < MaxSplits /\ Split /\ nsplit' = nsplit + 1

MCSpec == MCInit /\ [][MCNext]_mcvars
MCLive == MCInit /\ [][MCNext]_mcvars /\ WF_mcvars(Load /\ UNCHANGED nsplit)

\* in the split scenario the expansion is the flat ledger in every state
SplitIsFlat == Scenario = "split" => Flatten.ok /\ EntrySeq(Flatten) = [i \in 1..NEntries |-> i]

\* ---------------------------------------------------------------- emission
PathsSorted == SortPaths(Universe)
FsSeq == [i \in 1..Len(PathsSorted) |->
            [path |-> PathsSorted[i],
             missing |-> fs[PathsSorted[i]] = Missing,
             items |-> IF fs[PathsSorted[i]] = Missing THEN <<>> ELSE fs[PathsSorted[i]]]]
Done == status \notin {"init", "run"}
Emit == Done => PrintT(<<"REPLAY", ToJson([module |-> "Loader", scenario |-> Scenario, root |-> Root, fs |-> FsSeq,
                                            nsplit |-> nsplit,
                                            expect |-> [status |-> status, delivered |-> delivered]])>>)
=============================================================================
