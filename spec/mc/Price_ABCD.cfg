SPECIFICATION MCSpec
CONSTANTS
  Choices <- ChoicesABCD
  MaxEvents = 4
  Scenario = "ABCD"
  Fixed <- NoFixed
INVARIANT InvReciprocal
INVARIANT InvNoFuture
INVARIANT InvDbShadows
INVARIANT InvDirectDb
INVARIANT InvRoundTrip
INVARIANT InvFails
INVARIANT Emit
CHECK_DEADLOCK FALSE
