SPECIFICATION MCSpec
CONSTANTS
  MaxEntries = 2
INVARIANT DesignOK
INVARIANT Emit
CHECK_DEADLOCK FALSE
