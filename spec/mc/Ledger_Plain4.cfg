SPECIFICATION MCSpec
CONSTANTS
  Script <- ScriptPlain4
  Scenario = "Plain4"
INVARIANT AcceptedBalanced
INVARIANT RejectJustified
INVARIANT AssertionsTrue
INVARIANT AssignExact
INVARIANT RawEqualsFold
INVARIANT NoZeroCommodity
INVARIANT CanonicalOnly
INVARIANT LookupCanonical
INVARIANT NoStuck
INVARIANT Emit
CHECK_DEADLOCK FALSE
