SPECIFICATION MCSpec
CONSTANTS
  Script <- ScriptDatesT
  Scenario = "DatesT"
INVARIANT AcceptedBalanced
INVARIANT RawEqualsFold
INVARIANT NoZeroCommodity
INVARIANT WholeIsRegister
INVARIANT WholeRangeAgrees
INVARIANT RangeAdditive
INVARIANT HalfOpen
INVARIANT NoZeroShown
INVARIANT EmitRanges
CHECK_DEADLOCK FALSE
