SPECIFICATION MCSpec
CONSTANTS
  MaxEntries = 3
INVARIANT DesignOK
INVARIANT Emit
CHECK_DEADLOCK FALSE
