SPECIFICATION Spec
INVARIANT Report
POSTCONDITION AllConsumed
CHECK_DEADLOCK FALSE
