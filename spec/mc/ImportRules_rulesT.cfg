SPECIFICATION MCSpec
CONSTANTS
  MatchTable <- MCMatchTable
  Scenario = "rules"
  MaxRules = 4
INVARIANT FoldIsLeftToRight
INVARIANT LayersAgree
INVARIANT Emit
CHECK_DEADLOCK FALSE
