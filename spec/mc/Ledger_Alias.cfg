SPECIFICATION MCSpec
CONSTANTS
  Script <- ScriptAlias
  Scenario = "Alias"
INVARIANT AcceptedBalanced
INVARIANT RejectJustified
INVARIANT AssertionsTrue
INVARIANT AssignExact
INVARIANT RawEqualsFold
INVARIANT NoZeroCommodity
INVARIANT CanonicalOnly
INVARIANT LookupCanonical
INVARIANT NoStuck
INVARIANT Emit
CHECK_DEADLOCK FALSE
