---------------------------- MODULE MCImportViseca ----------------------------
EXTENDS ImportViseca, Json
CONSTANTS Scenario, MaxLines, MaxRecs

E(neg, cu, ex, amt, day, eday, payee) == [k |-> "E", neg |-> neg, cur |-> cu, ex |-> ex, amt |-> amt, day |-> day, eday |-> eday, payee |-> payee]
Ep  == E(FALSE, NoneS, NoD, D(500, 2), 4, 5, "certain, phone company CH")
En  == E(TRUE, NoneS, NoD, D(180305, 2), 6, 6, "Your payment - Thank you")
Es  == E(FALSE, "CHF", D(1900, 2), D(1935, 2), 13, 15, "PAYPAL *STEAM GAMES, 35314369001 GB")
Ef  == E(FALSE, "EUR", D(4688, 2), D(5211, 2), 10, 11, "Europe Gas AT")
Efn == E(TRUE, "EUR", D(799, 2), D(805, 2), 11, 3, "AMZNPRIME DE AMZN.DE/I, Luxembourg LU")
C1 == [k |-> "C", t |-> "Service stations"]
C2 == [k |-> "C", t |-> "Grocery stores"]
X  == [k |-> "X", rate |-> D(10924, 4), samt |-> D(5121, 2)]
F  == [k |-> "F", credit |-> FALSE, famt |-> D(90, 2)]
Fc == [k |-> "F", credit |-> TRUE, famt |-> D(15, 2)]
A  == [k |-> "A"]
J  == [k |-> "J"]
Dg == [k |-> "D"]
G  == [k |-> "G"]
B  == [k |-> "B"]
Alphabet == {Ep, En, Es, Ef, Efn, C1, X, F, Fc, A, J, Dg, G, B}

\* well-formed records, by the shape of their entry line
Cats == {C1, C2}
ShapesPlain(e) == {<<e>>, <<e, J>>} \cup {<<e, c>> : c \in Cats} \cup {<<e, c, A>> : c \in Cats} \cup {<<e, C2, A, A>>}
ShapesSame(e) == {<<e>>} \cup {<<e, c>> : c \in Cats} \cup {<<e, C2, F>>, <<e, C1, Fc>>, <<e, C2, F, A>>, <<e, C1, A>>}
ShapesForeign(e) == {<<e>>} \cup {<<e, c, X>> : c \in Cats} \cup {<<e, C1, X, F>>, <<e, C2, X, Fc>>, <<e, C1, X, F, A>>, <<e, C2, X, A, A>>}
Shapes == ShapesPlain(Ep) \cup ShapesPlain(En) \cup ShapesSame(Es) \cup ShapesForeign(Ef) \cup ShapesForeign(Efn)
RECURSIVE Concat(_)
Concat(ss) == IF ss = <<>> THEN <<>> ELSE Head(ss) \o Concat(Tail(ss))

MCInit == /\ Init
          /\ IF Scenario = "arb" THEN \E n \in 0..MaxLines : lines \in [1..n -> Alphabet]
             ELSE \E n \in 1..MaxRecs : \E ss \in [1..n -> Shapes] : lines = Concat(ss)
MCSpec == MCInit /\ [][Next]_vars /\ WF_vars(Next)

Rule(payee, cat) == IF cat = "Service stations" THEN "Expenses:Car"
                    ELSE IF payee = "Your payment - Thank you" THEN "Assets:Wire" ELSE NoneS
\* the well-formed scenario is well-formed, and consistent figures balance (design check of ExpectedTxn)
Valued(p) == IF p.cost = NoCost THEN p.amt ELSE DecRound(DecMul(p.amt, p.cost.v), 2)
RECURSIVE SumValued(_, _)
SumValued(ps, k) == IF k = 0 THEN DZero ELSE DecAdd(SumValued(ps, k - 1), Valued(ps[k]))
WellFormedScenario == Scenario = "wf" => Records(lines).ok
ConsistentBalances == LET g == Records(lines) IN
   g.ok => \A k \in 1..Len(g.recs) : (Consistent(g.recs[k]) /\ (Foreign(g.recs[k].e) => g.recs[k].x.k = "X")) =>
              LET t == ExpectedTxn(g.recs[k], Rule) IN DecIsZero(SumValued(t.posts, Len(t.posts)))
\* ---------------------------------------------------------------- refinement of the cursor skeleton
\* ImportViseca.tla refines ImportVisecaCursor.tla (whose invariant Apalache proves inductive for any statement):
\* a line is projected on its kind, the record under construction on the shape of its entry line
KindOf(ln) == IF ln.k = "E" THEN (IF ln.cur = NoneS THEN "Ep" ELSE IF ln.cur = Primary THEN "Es" ELSE "Ef") ELSE ln.k
Cursor == INSTANCE ImportVisecaCursor WITH lines <- [i \in 1..Len(lines) |-> KindOf(lines[i])],
                                           ek <- (IF cur.e.k = "E" THEN KindOf(cur.e) ELSE "~")
RefinesCursor == [][Cursor!Next]_<<lines, pos, peeked, count, pc, cur>>
CursorInv == Cursor!IndInv

Emit == Done => PrintT(<<"REPLAY", ToJson([module |-> "ImportViseca", scenario |-> Scenario, lines |-> lines, ok |-> (pc = "ok"),
                                            records |-> Len(out),
                                            expect |-> IF pc = "ok" THEN [k \in 1..Len(out) |-> ExpectedTxn(out[k], Rule)] ELSE <<>>])>>)
=============================================================================
