---------------------------- MODULE MCImportRules ----------------------------
(* Rule / record / document catalogues for ImportRules.tla and emission.      *)
EXTENDS ImportRules, Json

CONSTANTS Scenario,     \* "rules" | "layers"
          MaxRules
VARIABLES docs, file
mcvars == <<rvars, docs, file>>

\* ---------------------------------------------------------------- patterns and their match relation
M(payee, code) == [m |-> TRUE, payee |-> payee, code |-> code]
Plain == M(NoneS, NoneS)
Texts == {"Card 123 Migros", "Migros", "Coop City", "cashback", "Coop", "SHOP", "MIGROS AG", "Grocery", "Travel"}
MCMatchTable ==
  [p \in {"Card (?P<code>\\d+) (?P<payee>.*)", "migros", "^Migros$", "coop", "(?P<payee>Coop)", "cashback", "^MIGROS AG$", "grocery", "^SHOP$"} |->
    CASE p = "Card (?P<code>\\d+) (?P<payee>.*)" -> [t \in {"Card 123 Migros"} |-> M("Migros", "123")]
      [] p = "migros" -> [t \in {"Card 123 Migros", "Migros", "MIGROS AG"} |-> Plain]
      [] p = "^Migros$" -> [t \in {"Migros"} |-> Plain]
      [] p = "coop" -> [t \in {"Coop City", "Coop"} |-> Plain]
      [] p = "(?P<payee>Coop)" -> [t \in {"Coop City", "Coop"} |-> M("Coop", NoneS)]
      [] p = "cashback" -> [t \in {"cashback"} |-> Plain]
      [] p = "^MIGROS AG$" -> [t \in {"MIGROS AG"} |-> Plain]
      [] p = "grocery" -> [t \in {"Grocery"} |-> Plain]
      [] p = "^SHOP$" -> [t \in {"SHOP"} |-> Plain]]

F(field, pat) == [field |-> field, pat |-> pat]
Rule(or, pending, payee, account) == [or |-> or, pending |-> pending, payee |-> payee, account |-> account]
RuleCatalogue == {
  Rule(<<<<F("payee", "Card (?P<code>\\d+) (?P<payee>.*)")>>>>, FALSE, NoneS, NoneS),
  Rule(<<<<F("payee", "migros")>>>>, FALSE, NoneS, "Expenses:Grocery"),
  Rule(<<<<F("payee", "^Migros$")>>>>, TRUE, NoneS, "Expenses:Migros"),
  Rule(<<<<F("payee", "coop")>>, <<F("payee", "migros")>>>>, FALSE, "SHOP", "Expenses:Shop"),
  Rule(<<<<F("payee", "(?P<payee>Coop)")>>>>, FALSE, NoneS, NoneS),
  Rule(<<<<F("category", "grocery"), F("payee", "migros")>>>>, FALSE, NoneS, "Expenses:Food"),
  Rule(<<<<F("category", "grocery")>>>>, TRUE, NoneS, "Expenses:Cat"),
  Rule(<<<<F("payee", "cashback")>>>>, TRUE, NoneS, "Income:Misc"),
  Rule(<<<<F("payee", "migros")>>>>, FALSE, "MIGROS AG", NoneS),
  Rule(<<<<F("payee", "^MIGROS AG$")>>, <<F("payee", "^SHOP$")>>>>, FALSE, NoneS, "Expenses:AG")
}
NoFields == [x \in {} |-> ""]
Records == {[payee |-> p, category |-> c, fields |-> NoFields] : p \in {"Card 123 Migros", "Migros", "Coop City", "cashback"}, c \in {NoneS, "Grocery", "Travel"}}

SeqsUpTo(S, n) == UNION {[1..m -> S] : m \in 0..n}

\* ---------------------------------------------------------------- Camt053: which element a matcher field reads
CamtText == [f \in {"creditor_name", "creditor_account_id", "ultimate_creditor_name", "debtor_name", "debtor_account_id",
                     "ultimate_debtor_name", "remittance_unstructured_info", "additional_entry_info", "additional_transaction_info"} |->
               CASE f = "creditor_name" -> "Creditor AG" [] f = "creditor_account_id" -> "CH4389144154892413697"
                 [] f = "ultimate_creditor_name" -> "Final Creditor GmbH" [] f = "debtor_name" -> "Debtor Taro"
                 [] f = "debtor_account_id" -> "CH5604835012345678009" [] f = "ultimate_debtor_name" -> "Original Debtor KK"
                 [] f = "remittance_unstructured_info" -> "invoice 2024-17" [] f = "additional_entry_info" -> "entry level text"
                 [] f = "additional_transaction_info" -> "detail level text"]
CamtPat(g) == "^" \o CamtText[g] \o "$"
CamtMatchTable == [p \in {CamtPat(g) : g \in DOMAIN CamtText} |-> [t \in {CamtText[g] : g \in {h \in DOMAIN CamtText : CamtPat(h) = p}} |-> Plain]]

\* ---------------------------------------------------------------- documents
Doc(path, account, at, commodity, operator, rs) == [path |-> path, account |-> account, account_type |-> at, commodity |-> commodity, operator |-> operator, rules |-> rs]
R1 == Rule(<<<<F("payee", "migros")>>>>, FALSE, NoneS, "Expenses:Grocery")
R2 == Rule(<<<<F("payee", "coop")>>>>, TRUE, NoneS, "Expenses:Coop")
R3 == Rule(<<<<F("payee", "cashback")>>>>, FALSE, "Cash Back", "Income:Misc")
DocCatalogue == {
  Doc("bank/", "Assets:Bank", "asset", "USD", NoneS, <<R1>>),
  Doc("bank/okane", NoneS, NoneS, "JPY", "Okane Bank", <<R2>>),
  Doc("okane", "Assets:Okane", NoneS, NoneS, NoneS, <<>>),
  Doc("2024.csv", NoneS, "liability", NoneS, NoneS, <<R3>>),
  Doc("card/", "Liabilities:Card", "liability", "CHF", NoneS, <<R2, R3>>),
  Doc("data/bank/okane/2024.csv", "Assets:Exact", NoneS, NoneS, "Exact", <<>>),
  Doc("kane/", NoneS, NoneS, "EUR", NoneS, <<R1>>),
  Doc("bank", NoneS, "asset", NoneS, NoneS, <<>>)
}
Files == {"/data/bank/okane/2024.csv", "/data/card/2024.csv", "/data/other/x.csv", "/data/bank/other.csv"}

\* ---------------------------------------------------------------- initial states
NoDocs == <<>>
MCInit ==
  \/ /\ Scenario = "rules"
     /\ rules \in SeqsUpTo(RuleCatalogue, MaxRules) /\ rec \in Records
     /\ frag = Frag0 /\ idx = 1 /\ docs = NoDocs /\ file = ""
  \/ /\ Scenario = "camt"
     /\ \E f \in DOMAIN CamtText, g \in DOMAIN CamtText :
          rules = <<Rule(<<<<F(f, CamtPat(g))>>>>, FALSE, NoneS, "Expenses:Hit")>>
     /\ rec = [payee |-> "unknown payee", category |-> NoneS, fields |-> CamtText]
     /\ frag = Frag0 /\ idx = 1 /\ docs = NoDocs /\ file = ""
  \/ /\ Scenario = "table"
     /\ rules = <<>> /\ rec = [payee |-> "", category |-> NoneS, fields |-> NoFields] /\ frag = Frag0 /\ idx = 1 /\ docs = NoDocs /\ file = ""
  \/ /\ Scenario = "layers"
     /\ docs \in SeqsUpTo(DocCatalogue, 3) /\ file \in Files
     /\ rules = <<>> /\ rec = [payee |-> "", category |-> NoneS, fields |-> NoFields] /\ frag = Frag0 /\ idx = 1
MCNext == ApplyRule /\ UNCHANGED <<docs, file>>
MCSpec == MCInit /\ [][MCNext]_mcvars

LayersAgree == Scenario = "layers" => SelectAgrees(docs, file)

Emit ==
  /\ (Scenario = "camt" /\ Done) =>
        PrintT(<<"REPLAY", ToJson([module |-> "ImportRules", scenario |-> "camt", rules |-> rules, fields |-> rec.fields,
                                   expect |-> Outcome(TRUE)])>>)
  /\ (Scenario = "rules" /\ Done) =>
        PrintT(<<"REPLAY", ToJson([module |-> "ImportRules", scenario |-> "rules", rules |-> rules, rec |-> rec,
                                   expect |-> [neg |-> Outcome(TRUE), pos |-> Outcome(FALSE)]])>>)
  /\ Scenario = "table" =>
        PrintT(<<"REPLAY", ToJson([module |-> "ImportRules", scenario |-> "table", table |-> MatchTable, texts |-> Texts])>>)
  /\ Scenario = "layers" =>
        PrintT(<<"REPLAY", ToJson([module |-> "ImportRules", scenario |-> "layers", docs |-> docs, file |-> file, expect |-> Select(docs, file)])>>)
=============================================================================
