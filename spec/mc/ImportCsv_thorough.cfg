SPECIFICATION MCSpec
CONSTANTS
  MaxRows = 3
INVARIANT DesignOK
INVARIANT Emit
CHECK_DEADLOCK FALSE
