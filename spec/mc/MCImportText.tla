----------------------------- MODULE MCImportText -----------------------------
EXTENDS ImportText, Json
Max(a, b) == IF a >= b THEN a ELSE b
Emit == PrintT(<<"REPLAY", ToJson([module |-> "ImportText", rec |-> r, representable |-> Representable(r), faults |-> Faults(r),
                                   printed_scale |-> Max(r.amount.s, r.precision)])>>)
=============================================================================
