------------------------------ MODULE MCSyntax ------------------------------
(* Catalogues of entries and styles for Syntax.tla, emission for C05 / C19.  *)
EXTENDS Syntax, Json, FiniteSets

CONSTANT Scenario      \* "features" | "styles" | "files" | "layout"
VARIABLE doc           \* [entries |-> Seq(entry), style |-> style record, tag |-> what is being varied]

Lit == INSTANCE Literal WITH Alphabet <- {}, MaxLen <- 0, inp <- <<>>, st <- <<>>

\* ---------------------------------------------------------------- numbers (canonical spellings)
Num(chars, m, neg, s, f) == [txt |-> Cat(chars), chars |-> chars, m |-> m, neg |-> neg, s |-> s, f |-> f]
N5 == Num(<<"5">>, "5", FALSE, 0, "none")
N1250 == Num(<<"1", "2", ".", "5", "0">>, "1250", FALSE, 2, "none")
NComma == Num(<<"1", ",", "2", "3", "4", ".", "5">>, "12345", FALSE, 1, "comma")
NPlain == Num(<<"1", "2", "3", "4">>, "1234", FALSE, 0, "plain")
NSmall == Num(<<"0", ".", "0", "5">>, "5", FALSE, 2, "none")
NNeg == Num(<<"-", "3">>, "3", TRUE, 0, "none")
NMillion == Num(<<"1", ",", "0", "0", "0", ",", "0", "0", "0">>, "1000000", FALSE, 0, "comma")
NZero == Num(<<"0">>, "0", FALSE, 0, "none")
N2 == Num(<<"2">>, "2", FALSE, 0, "none")
NFmt == Num(<<"1", ",", "0", "0", "0", ".", "0", "0">>, "100000", FALSE, 2, "comma")
Numbers == {N5, N1250, NComma, NPlain, NSmall, NNeg, NMillion, NZero, N2, NFmt}

\* the catalogue agrees with Literal.tla: each spelling is canonical and has the stated value
ASSUME \A n \in Numbers :
         /\ Lit!Canonical(n.chars)
         /\ LET v == Lit!Value(n.chars) IN
            /\ v.neg = n.neg /\ v.scale = n.s /\ v.fmt = n.f
            /\ Cat(IF v.digs = <<>> THEN <<"0">> ELSE v.digs) = n.m

StripN(n) == [txt |-> n.txt, m |-> n.m, neg |-> n.neg, s |-> n.s, f |-> n.f]
A(n, c) == [t |-> "amt", a |-> [n |-> StripN(n), c |-> c]]
Bin(op, l, r) == [t |-> "bin", op |-> op, l |-> l, r |-> r]
Paren(e) == [t |-> "paren", e |-> e]
Neg(e) == [t |-> "neg", e |-> e]
Rate(v) == [k |-> "rate", v |-> v]
Total(v) == [k |-> "total", v |-> v]

\* ---------------------------------------------------------------- text atoms
T(s, w) == [s |-> s, w |-> w]
AcctBank == T("Assets:Bank", 11)
AcctFood == T("Expenses:Food and Drink", 23)
AcctWide == T("資産:銀行口座", 13)
AcctA == T("A", 1)
D1 == Date("2024", "01", "05")
D2 == Date("2024", "02", "29")

Post(cl, ac, am, co, lo, ba, me) == [clear |-> cl, account |-> ac, amount |-> am, cost |-> co, lot |-> lo, balance |-> ba, metadata |-> me]
PAmt(ac, am) == Post("", ac, am, None, NoLot, None, <<>>)
POmit(ac) == Post("", ac, None, None, NoLot, None, <<>>)
Txn(d, ed, cl, code, payee, me, ps) == [k |-> "txn", date |-> d, edate |-> ed, clear |-> cl, code |-> code, payee |-> payee, metadata |-> me, posts |-> ps]
MComment(v) == [k |-> "comment", v |-> v]
MTags(v) == [k |-> "tags", v |-> v]
MKv(key, kind, v) == [k |-> "kv", key |-> key, value |-> [k |-> kind, v |-> v]]

\* ---------------------------------------------------------------- posting shapes
PostingShapes == {
  PAmt(AcctBank, A(N1250, "USD")),
  PAmt(AcctFood, A(NComma, "USD")),
  PAmt(AcctWide, A(NPlain, "円")),
  PAmt(AcctA, A(NNeg, "USD")),
  PAmt(AcctBank, A(NZero, "")),
  PAmt(AcctBank, A(NMillion, "JPY")),
  PAmt(AcctBank, A(NSmall, "BTC")),
  POmit(AcctFood),
  Post("*", AcctBank, A(N5, "USD"), None, NoLot, None, <<>>),
  Post("!", AcctFood, None, None, NoLot, None, <<>>),
  Post("", AcctBank, A(N5, "AAPL"), Rate(A(N1250, "USD")), NoLot, None, <<>>),
  Post("", AcctBank, A(N5, "AAPL"), Total(A(NComma, "USD")), NoLot, None, <<>>),
  Post("", AcctBank, A(N5, "AAPL"), None, [price |-> Rate(A(N1250, "USD")), date |-> None, note |-> NoneS], None, <<>>),
  Post("", AcctBank, A(NNeg, "AAPL"), Rate(A(N2, "USD")), [price |-> Total(A(N1250, "USD")), date |-> D1, note |-> "first lot"], None, <<>>),
  Post("", AcctBank, A(N5, "AAPL"), None, [price |-> None, date |-> D2, note |-> NoneS], None, <<>>),
  Post("", AcctBank, A(N5, "AAPL"), None, [price |-> None, date |-> None, note |-> "a note"], None, <<>>),
  Post("", AcctBank, A(N5, "USD"), None, NoLot, A(NComma, "USD"), <<>>),
  Post("", AcctBank, None, None, NoLot, A(N1250, "USD"), <<>>),
  Post("", AcctFood, None, None, NoLot, A(NZero, ""), <<>>),
  Post("", AcctBank, A(N5, "AAPL"), Rate(A(N2, "USD")), NoLot, A(N5, "AAPL"), <<>>),
  Post("", AcctBank, Paren(Bin("*", A(N5, "USD"), A(N2, ""))), None, NoLot, None, <<>>),
  Post("", AcctBank, Paren(Bin("+", A(N5, "USD"), Bin("*", A(N2, ""), A(N1250, "USD")))), None, NoLot, None, <<>>),
  Post("", AcctBank, Paren(Bin("-", A(N5, ""), A(N2, ""))), None, NoLot, None, <<>>),
  Post("", AcctBank, Paren(Bin("/", Paren(Bin("-", A(N5, "USD"), A(N2, "USD"))), A(N2, ""))), None, NoLot, None, <<>>),
  Post("", AcctBank, Paren(Neg(Paren(Bin("+", A(N5, "USD"), A(N2, "USD"))))), None, NoLot, None, <<>>),
  Post("", AcctBank, A(N5, "AAPL"), Rate(Paren(Bin("/", A(N1250, "USD"), A(N2, "")))), NoLot, Paren(Bin("*", A(N5, "AAPL"), A(N2, ""))), <<>>),
  Post("", AcctBank, A(N5, "USD"), None, NoLot, None, <<MComment("posting note")>>),
  Post("", AcctBank, A(N5, "USD"), None, NoLot, None, <<MTags(<<"food", "日用">>), MKv("Payee", "text", "Some Shop"), MComment("second")>>),
  Post("", AcctFood, None, None, NoLot, None, <<MKv("Date", "expr", "[2024/01/05]")>>)
}

\* ---------------------------------------------------------------- header shapes (with two plain postings)
TwoPosts == <<PAmt(AcctBank, A(N1250, "USD")), POmit(AcctFood)>>
HeaderShapes == {
  Txn(D1, None, "", NoneS, "Grocery store", <<>>, TwoPosts),
  Txn(D1, D2, "", NoneS, "Grocery store", <<>>, TwoPosts),
  Txn(D1, D1, "", NoneS, "Grocery store", <<>>, TwoPosts),      \* an effective date that repeats the date is still written down
  Txn(D1, None, "*", NoneS, "スーパー マーケット", <<>>, TwoPosts),
  Txn(D1, None, "!", "#123", "Grocery store", <<>>, TwoPosts),
  Txn(D1, D2, "*", "code with space", "Payee", <<>>, TwoPosts),
  Txn(D1, None, "", "c1", "", <<>>, TwoPosts),
  Txn(D1, None, "", NoneS, "", <<>>, TwoPosts),
  Txn(D1, None, "", NoneS, "", <<>>, <<>>),
  Txn(D1, None, "", NoneS, "Payee", <<MComment("header note")>>, TwoPosts),
  Txn(D1, None, "", NoneS, "Payee", <<MTags(<<"tag1", "tag2">>), MKv("Key", "text", "value with spaces"), MComment("free text")>>, TwoPosts),
  Txn(D1, None, "", NoneS, "Payee", <<MKv("Amount", "expr", "(1 + 2)")>>, <<>>),
  Txn(D1, None, "", NoneS, "Payee", <<>>, <<PAmt(AcctBank, A(N1250, "USD")), PAmt(AcctFood, A(NNeg, "USD")), PAmt(AcctA, A(N5, "USD")), POmit(AcctWide)>>)
}

\* ---------------------------------------------------------------- directives
Directives == {
  [k |-> "comment", v |-> <<" a top level comment">>],
  [k |-> "comment", v |-> <<" first line", " second line", "third">>],
  [k |-> "comment", v |-> <<" コメント">>],
  [k |-> "apply_tag", key |-> "trip", value |-> None],
  [k |-> "apply_tag", key |-> "project", value |-> [k |-> "text", v |-> "home office"]],
  [k |-> "end_apply_tag"],
  [k |-> "include", path |-> "sub/2024-*.ledger"],
  [k |-> "include", path |-> "../with space/main.ledger"],
  [k |-> "account", name |-> "Assets:Bank", details |-> <<>>],
  [k |-> "account", name |-> "Expenses:Food and Drink", details |-> <<[k |-> "note", v |-> <<"eating out">>], [k |-> "alias", v |-> "Food"], [k |-> "comment", v |-> <<"remark">>]>>],
  [k |-> "account", name |-> "資産:銀行口座", details |-> <<[k |-> "alias", v |-> "銀行"], [k |-> "alias", v |-> "Bank JP"]>>],
  [k |-> "commodity", name |-> "USD", details |-> <<>>],
  [k |-> "commodity", name |-> "USD", details |-> <<[k |-> "note", v |-> <<"US dollar">>], [k |-> "alias", v |-> "US$"], [k |-> "format", v |-> [n |-> StripN(NFmt), c |-> "USD"]], [k |-> "comment", v |-> <<"remark">>]>>],
  [k |-> "commodity", name |-> "円", details |-> <<[k |-> "format", v |-> [n |-> StripN(NPlain), c |-> "円"]]>>],
  \* a note may be empty (`note` sp+ nothing), alone or as a paragraph break inside a longer note
  [k |-> "account", name |-> "Assets:Cash", details |-> <<[k |-> "note", v |-> <<"">>], [k |-> "alias", v |-> "Cash"]>>],
  [k |-> "commodity", name |-> "CHF", details |-> <<[k |-> "note", v |-> <<"first paragraph", "", "third line">>]>>]
}

PostingEntries == {Txn(D1, None, "", NoneS, "Payee", <<>>, <<p, POmit(AcctFood)>>) : p \in PostingShapes}
              \cup {Txn(D1, None, "", NoneS, "Payee", <<>>, <<POmit(AcctFood), p>>) : p \in PostingShapes}
Catalogue == PostingEntries \cup HeaderShapes \cup Directives

\* ---------------------------------------------------------------- styles: one dimension varied at a time
Varied == {[Base EXCEPT !.sep = v] : v \in {"\t", "   ", " \t"}}
     \cup {[Base EXCEPT !.indent = v] : v \in {" ", "\t", "  "}}
     \cup {[Base EXCEPT !.eq = v] : v \in {"=", "  =  "}}
     \cup {[Base EXCEPT !.at = v] : v \in {"@", " @"}}
     \cup {[Base EXCEPT !.inbr = " "]}
     \cup {[Base EXCEPT !.prelot = v] : v \in {"", "  "}}
     \cup {[Base EXCEPT !.amtsp = v] : v \in {"", "  "}}
     \cup {[Base EXCEPT !.op = "tight"]}
     \cup {[Base EXCEPT !.cprefix = v] : v \in {"#", "%", "|", "*"}}
     \cup {[Base EXCEPT !.datesep = "-"]}
     \cup {[Base EXCEPT !.nl = "\r\n"]}
     \cup {[Base EXCEPT !.eof = "eof"]}
     \cup {[Base EXCEPT !.trail = "  "]}
     \cup {[Base EXCEPT !.meta1 = "inline"]}
     \cup {[Base EXCEPT !.metasp = ""]}
     \cup {[Base EXCEPT !.nl = "\r\n", !.eof = "eof"]}
     \cup {[Base EXCEPT !.meta1 = "inline", !.eof = "eof"]}
FileStyles == {[Base EXCEPT !.blank = v] : v \in {"none", "two", "spaces"}}
         \cup {[Base EXCEPT !.blank = "none", !.nl = "\r\n"]}
         \cup {[Base EXCEPT !.blank = "two", !.eof = "eof"]}
         \cup {[Base EXCEPT !.blank = "spaces", !.trail = "  "]}

\* ---------------------------------------------------------------- layout scenario (C19): widths and number lengths
WAcct(n, wide, cl) ==   \* an account of display width n (wide: made of wide characters where possible)
  IF wide THEN T(Rep("口", n \div 2) \o (IF n % 2 = 1 THEN "a" ELSE ""), n) ELSE T(Rep("a", n), n)
DigitsTxt(k) == IF k = 1 THEN "5" ELSE "1" \o Rep("0", k - 1)
LNum(k, sc, neg) ==     \* k integer digits, sc decimals
  [txt |-> (IF neg THEN "-" ELSE "") \o DigitsTxt(k) \o (IF sc > 0 THEN "." \o Rep("0", sc) ELSE ""),
   m |-> DigitsTxt(k) \o Rep("0", sc), neg |-> neg, s |-> sc, f |-> IF k >= 4 THEN "plain" ELSE "none"]
LAmt(n, c) == [t |-> "amt", a |-> [n |-> n, c |-> c]]
\* ---------------------------------------------------------------- initial states
LayoutDoc ==
  \/ \E cl \in {"", "*"}, w \in 1..60, wide \in BOOLEAN, k \in {1, 3, 7, 12}, sc \in {0, 2}, neg \in BOOLEAN :
        doc = [entries |-> <<Txn(D1, None, "", NoneS, "Payee", <<>>, <<Post(cl, WAcct(w, wide, cl), LAmt(LNum(k, sc, neg), "USD"), None, NoLot, None, <<>>), POmit(AcctA)>>)>>, style |-> Base, tag |-> "layout"]
  \/ \E w \in 38..50, wide \in BOOLEAN, k \in {1, 5} :
        doc = [entries |-> <<Txn(D1, None, "", NoneS, "Payee", <<>>, <<Post("", WAcct(w, wide, ""), LAmt(LNum(k, 2, FALSE), "AAPL"), Rate(LAmt(LNum(3, 2, FALSE), "USD")),
                 [price |-> Rate(LAmt(LNum(2, 0, FALSE), "USD")), date |-> None, note |-> NoneS], LAmt(LNum(2, 0, FALSE), "AAPL"), <<>>), POmit(AcctA)>>)>>, style |-> Base, tag |-> "layout"]
  \/ \E cl \in {"", "!"}, w \in 1..60, wide \in BOOLEAN, k \in {1, 6}, sc \in {0, 2}, c \in {"USD", "X", "円", "米ドル"} :
        doc = [entries |-> <<Txn(D1, None, "", NoneS, "Payee", <<>>, <<Post(cl, WAcct(w, wide, cl), None, None, NoLot, LAmt(LNum(k, sc, FALSE), c), <<>>), POmit(AcctA)>>)>>, style |-> Base, tag |-> "layout"]
MCInit ==
  \/ Scenario = "features" /\ \E e \in Catalogue : doc = [entries |-> <<e>>, style |-> Base, tag |-> "base"]
  \/ Scenario = "styles" /\ \E e \in Catalogue, s \in Varied : doc = [entries |-> <<e>>, style |-> s, tag |-> "style"]
  \/ Scenario = "files" /\ \E e1 \in HeaderShapes \cup Directives, e2 \in HeaderShapes \cup Directives, s \in FileStyles \cup {Base} :
        doc = [entries |-> <<e1, e2, e1>>, style |-> s, tag |-> "file"]
  \/ Scenario = "layout" /\ LayoutDoc
  \/ Scenario = "random" /\ doc = [entries |-> <<>>, style |-> Base, tag |-> "random"]
\* random documents for simulation: three entries, every style dimension drawn independently
RandomStyle(x) == [sep |-> RandomElement({"  ", "\t", "   ", " \t"}), indent |-> RandomElement({"    ", " ", "\t", "  "}),
                eq |-> RandomElement({" = ", "=", "  =  "}), at |-> RandomElement({" @ ", "@", " @"}), inbr |-> RandomElement({"", " "}),
                prelot |-> RandomElement({" ", "", "  "}), amtsp |-> RandomElement({" ", "", "  "}), op |-> RandomElement({"spaced", "tight"}),
                cprefix |-> RandomElement({";", "#", "%", "|", "*"}), datesep |-> RandomElement({"/", "-"}), nl |-> RandomElement({"\n", "\r\n"}),
                blank |-> RandomElement({"one", "none", "two", "spaces"}), eof |-> RandomElement({"nl", "eof"}), trail |-> RandomElement({"", "  "}),
                meta1 |-> RandomElement({"inline", "nextline"}), metasp |-> RandomElement({" ", ""})]
RandomDoc(x) == [entries |-> <<RandomElement(Catalogue), RandomElement(Catalogue), RandomElement(Catalogue)>>, style |-> RandomStyle(x), tag |-> "random"]
MCNext == IF Scenario = "random" THEN doc' = RandomDoc(doc) ELSE UNCHANGED doc
MCSpec == MCInit /\ [][MCNext]_doc

\* ---------------------------------------------------------------- design-level checks
AllPostings == UNION {{doc.entries[i].posts[j] : j \in 1..Len(doc.entries[i].posts)} : i \in {i \in 1..Len(doc.entries) : doc.entries[i].k = "txn"}}
\* the canonical layout of every posting in the bound satisfies C19
CanonLayoutOK == \A p \in AllPostings : LayoutOK(PostingLayout(p))
\* and the canonical posting line is a rendering: Render with the separator the layout computes
CanonIsARendering ==
  \A p \in AllPostings :
     LET o == PostingLayout(p) IN
     HasValue(p) => CPostingLine(p) = "    " \o ClearText(p.clear) \o p.account.s \o Spaces(o.gap) \o RPostingValue(p, CanonStyle)

Emit == PrintT(<<"REPLAY", ToJson([module |-> "Syntax", scenario |-> Scenario, tag |-> doc.tag, style |-> doc.style,
                                   text |-> Render(doc.entries, doc.style), expect |-> doc.entries,
                                   layout |-> IF Scenario = "layout" THEN <<PostingLayout(doc.entries[1].posts[1])>> ELSE <<>>,
                                   canon_line |-> IF Scenario = "layout" THEN CPostingLine(doc.entries[1].posts[1]) ELSE ""])>>)
=============================================================================
