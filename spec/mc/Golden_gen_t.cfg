SPECIFICATION GenSpec
CONSTANTS
  Chars = {"a", "E", "CR", "LF"}
  MaxLen = 2
  MaxSteps = 6
INVARIANT Emit
CHECK_DEADLOCK FALSE
