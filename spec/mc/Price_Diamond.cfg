SPECIFICATION MCSpec
CONSTANTS
  Choices = {}
  MaxEvents = 4
  Scenario = "Diamond"
  Fixed <- Diamond
INVARIANT InvReciprocal
INVARIANT InvNoFuture
INVARIANT InvDbShadows
INVARIANT InvDirectDb
INVARIANT InvRoundTrip
INVARIANT InvFails
INVARIANT Emit
CHECK_DEADLOCK FALSE
