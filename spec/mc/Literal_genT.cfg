SPECIFICATION Spec
CONSTANTS
  Alphabet = {"0", "1", ",", ".", "-"}
  MaxLen = 10
INVARIANT Emit
CHECK_DEADLOCK FALSE
