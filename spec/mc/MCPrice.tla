------------------------------ MODULE MCPrice ------------------------------
EXTENDS Price, Json
CONSTANTS Choices,      \* set of events to choose from
          MaxEvents, Scenario, Fixed    \* Fixed: sequence of sets of events (one per slot) or <<>>

Ev(src, date, of, with, a, b) == [src |-> src, date |-> date, of |-> of, with |-> with, r |-> <<a, b>>]
Rates == {<<1, 0>>, <<0, 1>>, <<-1, 0>>}            \* 2, 5, 0.5

\* every pair among three commodities, three dates, three rates, both sources
ChoicesABC == {Ev(s, d, p[1], p[2], r[1], r[2]) : s \in {"ledger", "db"}, d \in {1, 2, 3},
               p \in {<<"A", "B">>, <<"B", "C">>, <<"C", "A">>}, r \in Rates}
\* three events with fewer dates and rates
ChoicesABC3 == {Ev(s, d, p[1], p[2], r[1], r[2]) : s \in {"ledger", "db"}, d \in {1, 3},
               p \in {<<"A", "B">>, <<"B", "C">>, <<"C", "A">>}, r \in {<<1, 0>>, <<0, 1>>}}
\* the diamond A-B-D / A-C-D: two chains of equal length whose staleness decides
Diamond == <<{Ev(s, d, "A", "B", 1, 0) : s \in {"ledger", "db"}, d \in 1..4},
             {Ev(s, d, "B", "D", 0, 1) : s \in {"ledger", "db"}, d \in 1..4},
             {Ev(s, d, "A", "C", 0, 1) : s \in {"ledger", "db"}, d \in 1..4},
             {Ev(s, d, "C", "D", 0, 1) : s \in {"ledger", "db"}, d \in 1..4}>>
\* four commodities, any pairs (thorough / simulation)
ChoicesABCD == {Ev(s, d, p[1], p[2], r[1], r[2]) : s \in {"ledger", "db"}, d \in {1, 2, 3, 4},
               p \in {<<"A", "B">>, <<"B", "C">>, <<"C", "A">>, <<"A", "D">>, <<"D", "B">>, <<"C", "D">>}, r \in Rates}

NoFixed == <<>>
Slot(n) == IF Fixed = <<>> THEN Choices ELSE Fixed[n]
Limit == IF Fixed = <<>> THEN MaxEvents ELSE Len(Fixed)
\* ledger events first, then database lines (the order the code produces them)
MCNext ==
  \/ /\ Len(events) < Limit /\ \E e \in Slot(Len(events) + 1) : InsertLedger(e) \/ InsertDb(e)
  \/ EndLedger
  \/ EndDb /\ (Fixed = <<>> \/ Len(events) = Limit)
MCSpec == PInit /\ [][MCNext]_pvars

Done == phase = "done"
Queries == {<<a, b, d>> \in Commodities \X Commodities \X Days : TRUE}
Emit == Done =>
  PrintT(<<"REPLAY", ToJson([module |-> "Price", scenario |-> Scenario, events |-> events,
           conv |-> {[from |-> q[1], to |-> q[2], day |-> q[3], rates |-> Convert(q[1], q[2], q[3])] : q \in Queries}])>>)
AtDone(P) == Done => P
InvReciprocal == AtDone(ReciprocalConsistent)
InvNoFuture == AtDone(NoFuturePrice)
InvDbShadows == AtDone(DbShadowsLedger)
InvDirectDb == AtDone(DirectDbWins)
InvRoundTrip == AtDone(RoundTrip)
InvFails == AtDone(FailsIffNoChain)
=============================================================================
