------------------------------ MODULE MCLedger ------------------------------
(* Bounded scenarios for Ledger.tla: input spaces, emission of behaviours.   *)
EXTENDS Report, Json

CONSTANT Script, Scenario
VARIABLE si      \* index of the script slot being filled
mcvars == <<vars, si>>

SeqsUpTo(S, n) == UNION {[1..m -> S] : m \in 0..n}
NonEmptySeqsUpTo(S, n) == UNION {[1..m -> S] : m \in 1..n}

Q(c, m, s) == [c |-> c, v |-> D(m, s)]
Rate(c, m, s) == [k |-> "rate", c |-> c, v |-> D(m, s)]
Total(c, m, s) == [k |-> "total", c |-> c, v |-> D(m, s)]
Reg(a, q) == [acct |-> a, kind |-> "reg", q |-> q, cost |-> NoEx, lot |-> NoEx, asrt |-> NoQ]
RegX(a, q, cost, lot, asrt) == [acct |-> a, kind |-> "reg", q |-> q, cost |-> cost, lot |-> lot, asrt |-> asrt]
Omit(a) == [acct |-> a, kind |-> "omit", q |-> NoQ, cost |-> NoEx, lot |-> NoEx, asrt |-> NoQ]
Assign(a, q) == [acct |-> a, kind |-> "assign", q |-> NoQ, cost |-> NoEx, lot |-> NoEx, asrt |-> q]
Txn(d, ps) == [k |-> "txn", date |-> d, posts |-> ps]
DeclA(n, as) == [k |-> "acct", name |-> n, aliases |-> as]
DeclC(n, as, p) == [k |-> "cmdt", name |-> n, aliases |-> as, prec |-> p]

Bare0 == [c |-> "", v |-> DZero]

\* A scenario is a script: a sequence of slots, each filled nondeterministically.
\*   [t |-> "decl", choices |-> set of declaration entries, optional |-> BOOLEAN]
\*   [t |-> "txn", date, first, rest |-> sets of postings, min, max |-> number of postings]
DeclSlot(ch, opt) == [t |-> "decl", choices |-> ch, optional |-> opt]
TxnSlot(d, first, others, mn, mx) == [t |-> "txn", dates |-> {d}, first |-> first, rest |-> others, min |-> mn, max |-> mx]
TxnSlotD(ds, first, others, mn, mx) == [t |-> "txn", dates |-> ds, first |-> first, rest |-> others, min |-> mn, max |-> mx]
Fixed(e) == DeclSlot({e}, FALSE)

\* ---------------------------------------------------------------- plain
\* one transaction, <= 3 postings, 2 accounts, 3 commodities, values -2..2, bare 0, omitted
PlainQ == {Q(c, m, 0) : c \in {"X", "Y", "Z"}, m \in -2..2} \cup {Bare0}
PlainPosts == {Reg(a, q) : a \in {"A", "B"}, q \in PlainQ} \cup {Omit("A"), Omit("B")}
ScriptPlain == <<TxnSlot(1, PlainPosts, PlainPosts, 1, 3)>>

\* ---------------------------------------------------------------- plain4 (thorough): 4 postings
Plain4Posts == {Reg("A", q) : q \in {Q(c, m, 0) : c \in {"X", "Y", "Z"}, m \in {-2, -1, 0, 1, 3}} \cup {Bare0}} \cup {Omit("B")}
ScriptPlain4 == <<TxnSlot(1, Plain4Posts, Plain4Posts, 4, 4)>>

\* ---------------------------------------------------------------- rounding
\* declared precision on X in {none,0,1}; half-unit boundaries 0.05 0.15 0.25 / 0.5 1.5 2.5
RoundQ == {Q("X", m, 2) : m \in {-25, -15, -5, 5, 15, 25, 10, -10}} \cup {Q("X", m, 1) : m \in {-25, -15, -5, 5, 15, 25}}
          \cup {Q("Y", m, 1) : m \in {-5, 5, 10}} \cup {Q("X", 0, 0)}
RoundPosts == {Reg("A", q) : q \in RoundQ}
ScriptRound == <<DeclSlot({DeclC("X", <<>>, p) : p \in {-1, 0, 1}}, FALSE), TxnSlot(1, RoundPosts, RoundPosts, 1, 3)>>

\* ---------------------------------------------------------------- cost / lot
CLQ == {Q("X", m, 0) : m \in {-2, 0, 1, 2}} \cup {Bare0} \cup {Q("Y", m, 0) : m \in {-2, -1, 2, 4}}
CLEx == {NoEx} \cup {Rate(c, m, 0) : c \in {"X", "Y"}, m \in {0, 2, -1}} \cup {Total(c, m, 0) : c \in {"Y"}, m \in {0, 2, -2}}
        \cup {Rate("", 2, 0), Rate("Z", 1, 0)}
CLFirst == {RegX("A", q, c, l, NoQ) : q \in {Q("X", m, 0) : m \in {-2, 0, 1, 2}} \cup {Bare0}, c \in CLEx, l \in CLEx}
CLRest == {Reg("B", q) : q \in CLQ} \cup {Omit("B")}
ScriptCostLot == <<TxnSlot(1, CLFirst, CLRest, 1, 3)>>

\* ---------------------------------------------------------------- omitted / assigned after a history
\* funding gives account A nothing, one or two commodities; then a transaction with
\* an omitted or assigned posting at every position.
FundPosts == {Reg("A", Q("X", 3, 0)), Reg("A", Q("Y", -2, 0)), Omit("E")}
OAQ == {Q("X", 1, 0), Q("X", -3, 0), Q("Y", 2, 0), Q("X", 0, 0)}
OAPosts == {Reg(a, q) : a \in {"A", "B"}, q \in OAQ}
           \cup {RegX("B", Q("X", 2, 0), Rate("Y", 2, 0), NoEx, NoQ), RegX("B", Q("Y", -4, 0), NoEx, Total("X", 2, 0), NoQ)}
           \cup {Omit("A"), Omit("B")}
           \cup {Assign("A", q) : q \in {Q("X", 5, 0), Q("X", 3, 0), Q("X", 0, 0), Q("Y", 1, 0), Bare0, Q("Z", 0, 0)}}
           \cup {Assign("B", Bare0), Assign("B", Q("X", 1, 0))}
ScriptOmitAssign == <<TxnSlot(1, {Omit("E")}, {Reg("A", Q("X", 3, 0)), Reg("A", Q("Y", -2, 0))}, 1, 3),
                      TxnSlot(2, OAPosts, OAPosts, 1, 3)>>

\* ---------------------------------------------------------------- assertions over a history
\* (1.0 X is the same number as 1 X; 1.4 X is not, however many decimals the balance has been written with)
AsQ == {NoQ, Q("X", 1, 0), Q("X", 3, 0), Q("X", 0, 0), Q("Y", -2, 0), Bare0, Q("X", 10, 1), Q("X", 14, 1)}
AsPosts == {RegX(a, q, NoEx, NoEx, s) : a \in {"A"}, q \in {Q("X", 1, 0), Q("X", -1, 0), Q("Y", -2, 0), Q("X", 2, 0)}, s \in AsQ}
           \cup {RegX("B", Q("X", -1, 0), NoEx, NoEx, s) : s \in {NoQ, Q("X", -1, 0), Q("X", -2, 0)}}
           \* a posting that moves nothing (`A  0 = ..`, `A  0 X = ..`) still has its assertion checked
           \cup {RegX("A", q, NoEx, NoEx, s) : q \in {Bare0, Q("X", 0, 0)}, s \in AsQ \ {NoQ}}
           \cup {Omit("E"), Omit("A")} \cup {Assign("A", Q("X", 2, 0)), Assign("A", Bare0)}
As1Posts == {RegX("A", Q("X", 1, 0), NoEx, NoEx, s) : s \in {NoQ, Q("X", 1, 0), Q("X", 3, 0)}} \cup {Reg("A", Q("Y", -2, 0)), Omit("E")}
ScriptAssert == <<TxnSlot(1, As1Posts, As1Posts, 1, 3), TxnSlot(2, AsPosts, AsPosts, 1, 2)>>
\* (three postings: the zero-amount asserted postings are thinned to four shapes to keep the thorough tier within memory)
AsPostsT == {p \in AsPosts : p.kind = "reg" /\ DecIsZero(p.q.v) =>
                              <<p.q.c, p.asrt>> \in {<<"", Q("X", 1, 0)>>, <<"", Bare0>>, <<"X", Q("X", 3, 0)>>, <<"X", Q("Y", -2, 0)>>, <<"", Q("X", 14, 1)>>}}
ScriptAssertT == <<TxnSlot(1, As1Posts, As1Posts, 1, 3), TxnSlot(2, AsPostsT, AsPostsT, 1, 3)>>
ScriptDeferred == <<TxnSlot(1, {Reg("A", Q("X", 1, 0))}, {Omit("E")}, 2, 2), TxnSlot(2, AsPosts, AsPosts, 2, 3)>>

\* ---------------------------------------------------------------- deduced amounts vs declared precision
\* the inferred amount is exact even when the commodity declares fewer decimals, and later
\* assertions / assignments on that account see the exact value
DPFirst == {Reg("A", Q("X", m, 2)) : m \in {25, 15, 5, -25, 150}} \cup {RegX("A", Q("Y", 1, 0), Rate("X", 25, 2), NoEx, NoQ)}
DP2 == {RegX("B", Q("X", 1, 0), NoEx, NoEx, s) : s \in {NoQ, Q("X", 75, 2), Q("X", 1, 0), Q("X", 8, 1), Q("X", 85, 2)}}
       \cup {Assign("B", Q("X", 1, 0)), Assign("B", Bare0)}
ScriptDeducePrec == <<DeclSlot({DeclC("X", <<>>, p) : p \in {0, 1}}, FALSE),
                      TxnSlot(1, DPFirst, {Omit("B"), Reg("A", Q("X", 5, 1))}, 2, 3),
                      TxnSlot(2, DP2, {Omit("E")}, 2, 2)>>

\* ---------------------------------------------------------------- dated histories for the reports (C04)
\* three transactions, each on any of three dates IN ANY ORDER (files need not be chronological),
\* with and without a declared precision, a commodity that cancels out, an inferred amount
\* (and an account closed by assignment, `A  = 0 X`: it holds nothing afterwards, in every report)
DtFirst == {Reg("A", Q("X", 1, 0)), Reg("A", Q("X", -1, 0)), Reg("A", Q("X", 4, 1)), Reg("B", Q("Y", 2, 0)), Reg("A", Q("X", 15, 1)),
            Assign("A", Q("X", 0, 0))}
ScriptDates == <<DeclSlot({DeclC("X", <<>>, 0)}, TRUE),
                 TxnSlotD({1, 2, 3}, DtFirst, {Omit("E")}, 2, 2),
                 TxnSlotD({1, 2, 3}, DtFirst, {Omit("E"), Omit("B")}, 2, 2),
                 TxnSlotD({1, 2, 3}, DtFirst, {Omit("E")}, 2, 2)>>

DtFirstT == DtFirst \cup {Reg("A", Q("Y", -2, 0)), RegX("A", Q("X", 2, 0), Rate("Y", 2, 0), NoEx, NoQ), Assign("A", Q("X", 1, 0))}
ScriptDatesT == <<DeclSlot({DeclC("X", <<>>, 0), DeclC("X", <<>>, 1)}, TRUE),
                  TxnSlotD({1, 2, 3}, DtFirstT, {Omit("E")}, 2, 2),
                  TxnSlotD({1, 2, 3}, DtFirstT, {Omit("E"), Omit("B")}, 2, 2),
                  TxnSlotD({1, 2, 3}, DtFirstT, {Omit("E"), Reg("E", Q("X", -1, 0))}, 2, 2)>>

\* ---------------------------------------------------------------- aliases and declaration order
AlDecl == {DeclA("A", <<"a">>), DeclA("B", <<"a">>), DeclA("a", <<>>), DeclA("A", <<"B">>), DeclA("A", <<"b", "a">>),
           DeclC("X", <<"x">>, -1), DeclC("x", <<>>, -1), DeclC("Y", <<"x", "X">>, -1), DeclC("X", <<"x">>, 0)}
AlPosts == {Reg(a, q) : a \in {"A", "a", "B"}, q \in {Q("X", 1, 0), Q("x", 1, 0), Q("x", -1, 0), Q("Y", -1, 0)}}
           \cup {RegX("a", Q("X", 1, 0), NoEx, NoEx, Q("x", 2, 0)), RegX("A", Q("Y", 1, 0), Rate("x", 1, 0), NoEx, NoQ), Omit("B"), Omit("a")}
ScriptAlias == <<DeclSlot(AlDecl, TRUE), TxnSlot(1, {Reg("a", Q("x", 1, 0)), Reg("A", Q("X", 1, 0))}, {Omit("B")}, 2, 2),
                 DeclSlot(AlDecl, TRUE), DeclSlot(AlDecl, TRUE), TxnSlot(2, AlPosts, AlPosts, 1, 2)>>

AlPostsT == AlPosts \cup {RegX("A", Q("x", 2, 0), Total("Y", 2, 0), NoEx, NoQ), RegX("B", Q("Y", -1, 0), NoEx, Rate("x", 1, 0), NoQ),
                         Assign("a", Q("x", 3, 0)), Assign("A", Bare0)}
ScriptAliasT == <<DeclSlot(AlDecl, TRUE), TxnSlot(1, {Reg("a", Q("x", 1, 0)), Reg("A", Q("X", 1, 0))}, {Omit("B")}, 2, 2),
                  DeclSlot(AlDecl, TRUE), DeclSlot(AlDecl, TRUE), TxnSlot(2, AlPostsT, AlPostsT, 1, 3)>>

\* ================================================================ machinery
\* shapes excluded from every generator (DESIGN C03): an assignment on the account of an
\* earlier omitted posting of the same transaction (the two inferred amounts define each other).
CurPosts == input[ei].posts
AssignAfterOmit(ps) == \E i, j \in 1..Len(ps) : i < j /\ ps[i].kind = "omit" /\ ps[j].kind = "assign" /\ ps[i].acct = ps[j].acct
\* assertion on the account of an earlier omitted posting (decided at commit by the design)
HasDeferred(ps) == \E i, j \in 1..Len(ps) : i < j /\ ps[i].kind = "omit" /\ ps[j].kind = "reg" /\ ps[j].asrt # NoQ /\ ps[i].acct = ps[j].acct
ShapeOK(ps) == /\ ~AssignAfterOmit(ps)
               /\ (Scenario # "Deferred" => ~HasDeferred(ps))

MCInit == Init /\ si = 0
Slot == Script[si]
MCNext ==
  \/ /\ Between /\ si < Len(Script)
     /\ LET sl == Script[si + 1] IN
        \/ /\ sl.t = "decl" /\ si' = si + 1
           /\ \E e \in sl.choices : DeclAccount(e) \/ DeclCommodity(e)
        \/ /\ sl.t = "decl" /\ sl.optional /\ si' = si + 1 /\ UNCHANGED vars
        \/ /\ sl.t = "txn" /\ si' = si + 1 /\ \E d \in sl.dates : BeginTxn(d)
  \/ /\ InTxn /\ pi <= Slot.max /\ UNCHANGED si
     /\ \E p \in (IF pi = 1 THEN Slot.first ELSE Slot.rest) : ShapeOK(Append(CurPosts, p)) /\ Post(p)
  \/ /\ InTxn /\ pi > Slot.min /\ UNCHANGED si /\ CommitOrReject
  \/ /\ Between /\ si = Len(Script) /\ UNCHANGED si /\ Finish
MCSpec == MCInit /\ [][MCNext]_mcvars
MCSpecFair == MCSpec /\ WF_mcvars(MCNext)

Done == status.s # "run"
PermittedOnly == status.s = "rej" /\ status.kinds = {"pair_not_accepted"}
\* the Deferred scenario only keeps behaviours that contain its shape
Relevant == Scenario = "Deferred" => ghost.deferred

Expect == [verdict |-> status.s,
           entry |-> IF status.s = "rej" THEN status.entry ELSE 0,
           post |-> IF status.s = "rej" THEN status.post ELSE 0,
           kinds |-> IF status.s = "rej" THEN status.kinds ELSE {},
           info |-> IF status.s = "rej" THEN status.info ELSE <<>>,
           reg |-> [i \in 1..Len(reg) |-> [date |-> reg[i].date,
                     posts |-> [j \in 1..Len(reg[i].posts) |-> [acct |-> reg[i].posts[j].acct, amt |-> reg[i].posts[j].amt,
                                                                  kind |-> reg[i].posts[j].kind]]]],
           bal |-> bal, prices |-> prices, lenient |-> ghost.lenient, prec |-> prec, deferred |-> ghost.deferred,
           acct |-> acct, cmdt |-> cmdt,
           lookup_acct |-> [n \in DOMAIN acct |-> Lookup(acct, n)], lookup_cmdt |-> [n \in DOMAIN cmdt |-> Lookup(cmdt, n)]]

\* expected reports for every date range, for the replay of C04
\* (the unbounded query is the whole-history report, compared separately: it is shown unrounded)
RangePairs == {p \in QueryDates \X QueryDates : ~(p[1] = NoBound /\ p[2] = NoBound)}
ExpectRanges == [verdict |-> status.s, bal |-> bal, prec |-> prec,
                 accounts |-> AccountsOfReg,
                 ranges |-> {[s |-> p[1], e |-> p[2], bal |-> [a \in AccountsOfReg |-> BalanceRange(a, p[1], p[2])]] : p \in RangePairs},
                 register |-> [a \in AccountsOfReg |-> RegisterOf(Flat(reg), a)]]
EmitRanges == (status.s = "ok") =>
          PrintT(<<"REPLAY", ToJson([module |-> "Report", scenario |-> Scenario, input |-> input, expect |-> ExpectRanges])>>)

Emit == (Done /\ ~PermittedOnly /\ Relevant) =>
          PrintT(<<"REPLAY", ToJson([module |-> "Ledger", scenario |-> Scenario, input |-> input, expect |-> Expect])>>)
=============================================================================
