SPECIFICATION MCSpec
CONSTANTS
  Script <- ScriptConvT
  DbChoices <- DbConvT
  Scenario = "ConvT"
INVARIANT AcceptedBalanced
INVARIANT RawEqualsFold
INVARIANT InvPricesExp
INVARIANT TargetUntouched
INVARIANT FailsIffMissing
INVARIANT SplitAdds
INVARIANT Emit
CHECK_DEADLOCK FALSE
