SPECIFICATION Spec
CONSTANTS
  Alphabet = {"0", "1", "7", ",", ".", "-"}
  MaxLen = 8
INVARIANT Emit
CHECK_DEADLOCK FALSE
