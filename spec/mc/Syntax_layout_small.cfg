SPECIFICATION MCSpec
CONSTANTS
  Scenario = "layout"
INVARIANT CanonLayoutOK
INVARIANT CanonIsARendering

CHECK_DEADLOCK FALSE
