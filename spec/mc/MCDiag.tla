------------------------------- MODULE MCDiag -------------------------------
EXTENDS Diag, Json
CONSTANT MaxPre
SeqsUpTo(S, n) == UNION {[1..m -> S] : m \in 0..n}
\* eof: the file with the bad entry ends at end of file, without a final line ending (then nothing follows the entry)
MCInit == \E pre \in SeqsUpTo(BlockKinds, MaxPre), f \in Faults, nl \in {"LF", "CRLF"}, depth \in 0..2, via \in {"sub", "parent"}, after \in BOOLEAN, eof \in BOOLEAN, tight \in BOOLEAN :
            /\ (depth < 2 => via = "sub")
            /\ (eof => ~after /\ Len(pre) <= 1)
            /\ (tight => after /\ Len(f.lines) = 1)          \* a one-line entry directly followed by the next entries
            /\ d = [pre |-> pre, fault |-> f, nl |-> nl, depth |-> depth, via |-> via, after |-> after, eof |-> eof, tight |-> tight]
MCSpec == MCInit /\ [][Next]_d
Emit == PrintT(<<"REPLAY", ToJson([module |-> "Diag", fault |-> d.fault.id, nl |-> d.nl, depth |-> d.depth, pre |-> d.pre, after |-> d.after, eof |-> d.eof, tight |-> d.tight, badfile |-> ExpectedFile,
                                   files |-> Files, root |-> RootPath, expect |-> Expected])>>)
=============================================================================
