------------------------------- MODULE MCDiag -------------------------------
EXTENDS Diag, Json
CONSTANT MaxPre
SeqsUpTo(S, n) == UNION {[1..m -> S] : m \in 0..n}
MCInit == \E pre \in SeqsUpTo(BlockKinds, MaxPre), f \in Faults, nl \in {"LF", "CRLF"}, depth \in 0..2, via \in {"sub", "parent"}, after \in BOOLEAN :
            /\ (depth < 2 => via = "sub")
            /\ d = [pre |-> pre, fault |-> f, nl |-> nl, depth |-> depth, via |-> via, after |-> after]
MCSpec == MCInit /\ [][Next]_d
Emit == PrintT(<<"REPLAY", ToJson([module |-> "Diag", fault |-> d.fault.id, nl |-> d.nl, depth |-> d.depth, pre |-> d.pre, after |-> d.after,
                                   files |-> Files, root |-> RootPath, expect |-> Expected])>>)
=============================================================================
