SPECIFICATION Spec
CONSTANTS
  Keys = {1, 2, 3, 4}
  Vals = {10, 20}
INVARIANT EmitClass
CHECK_DEADLOCK FALSE
