----------------------------- MODULE MCImportCsv -----------------------------
(* Configurations and statements for ImportCsv.tla, emission.                  *)
EXTENDS ImportCsv, Json

CONSTANT MaxRows
VARIABLES cfg, rows, opening

Rate2 == [r |-> D(2, 0), inv |-> D(5, 1)]
RateHalf == [r |-> D(5, 1), inv |-> D(2, 0)]
Amounts == IF MaxRows <= 2 THEN {D(-200, 2), D(100, 2), D(1050, 2), D(-123450, 2)} ELSE {D(-200, 2), D(-100, 2), D(100, 2), D(200, 2), D(1050, 2), D(-123450, 2)}
Payees == {"Grocery Shop", "給料"}

\* the secondary amount a consistent statement shows for (amount, rate, direction)
\* (a is the amount with the fee taken out: the statement's quantity column is what was bought or sold)
SecFor(c, a, rt) == IF rt = NoRate THEN NoD
                    ELSE IF c \in {"extract_pop", "compute_pop"} THEN DecMul(DecAbs(a), rt.r) ELSE DecMul(DecAbs(a), rt.inv)
Row(c, day, p, a, rt, note, chg, cm) ==
  [day |-> day, payee |-> p, amt |-> a, rate |-> rt, sec |-> SecFor(c, IF chg = NoD THEN a ELSE DecAdd(a, chg), rt), note |-> note, chg |-> chg, cmdt |-> cm]
Charges == {NoD, D(0, 2), D(100, 2)}

Cfgs == {[atype |-> at, cols |-> cols, layout |-> lay, delim |-> dl, skip |-> sk, datefmt |-> df, order |-> ord, balance |-> bal, conv |-> cv, ruleconv |-> rc, charge |-> ch, cmdtcol |-> cc] :
           at \in {"asset", "liability"}, cols \in {"amount", "creditdebit"}, lay \in {"index", "label", "template"}, dl \in {",", ";"},
           sk \in {0, 2, 3}, df \in {"%Y-%m-%d", "%d.%m.%Y"}, ord \in {"old_to_new", "new_to_old"}, bal \in BOOLEAN,
           cv \in {"none", "extract_pos", "compute_pos", "extract_pop", "compute_pop", "disabled"}, rc \in {"none", "disabled", "commodity"},
           ch \in {"none", "column"}, cc \in BOOLEAN}

\* pairwise-ish reduction for the quick tier: every value of every dimension with the conversion and order dimensions crossed fully
Reduced(c) == \/ (c.delim = "," /\ c.skip = 0 /\ c.datefmt = "%Y-%m-%d")
              \/ (c.delim = ";" /\ c.skip = 2 /\ c.datefmt = "%d.%m.%Y" /\ c.layout = "label")
              \/ (c.delim = "," /\ c.skip = 3 /\ c.datefmt = "%Y-%m-%d" /\ c.layout \in {"index", "label"} /\ c.conv \in {"none", "extract_pos"} /\ c.ruleconv = "none" /\ c.charge = "none")

MCInit ==
  /\ cfg \in {c \in Cfgs : (c.balance => c.atype = "asset") /\ (MaxRows > 2 \/ Reduced(c))
                             /\ (c.ruleconv = "disabled" => c.conv \in {"extract_pos", "compute_pop"} /\ c.layout = "label")
                             /\ (c.ruleconv = "commodity" => c.conv \in {"extract_pos", "compute_pos", "extract_pop"} /\ c.layout = "index")
                             \* a charge column: every conversion mode, both account types and column kinds, with and without a balance column
                             \* a commodity column (multi-currency account): rows in either commodity, no conversion, with and without the balance column
                             /\ (c.cmdtcol => c.conv = "none" /\ c.ruleconv = "none" /\ c.charge = "none" /\ c.layout \in {"label", "index"} /\ c.delim = "," /\ c.skip = 0 /\ c.datefmt = "%Y-%m-%d")
                             /\ (c.charge = "column" => c.ruleconv = "none" /\ c.layout = "label" /\ c.order = "old_to_new" /\ c.conv # "disabled")}
  /\ opening \in {D(0, 0), D(50000, 2)}
  /\ \E n \in 1..MaxRows :
       \E as \in [1..n -> Amounts], rts \in [1..n -> {NoRate, Rate2, RateHalf}], chs \in [1..n -> Charges], cms \in [1..n -> {Primary, OtherCommodity}] :
         /\ (~cfg.cmdtcol => \A k \in 1..n : cms[k] = Primary)
         /\ (cfg.charge = "none" => \A k \in 1..n : chs[k] = NoD)
         /\ (cfg.charge = "column" => /\ \E k \in 1..n : chs[k] \notin {NoD, D(0, 2)}
                                       /\ opening = D(50000, 2)
                                       /\ (MaxRows <= 2 => \A j \in 1..n : as[j] \in {D(-200, 2), D(1050, 2)}))
         /\ (cfg.conv = "none" => \A k \in 1..n : rts[k] = NoRate)
         /\ (cfg.ruleconv = "commodity" => \A k \in 1..n : rts[k] # NoRate)      \* a rule's conversion needs a rate on every row it matches
         \* dates: one day per row, or every row on the same day (the order of the statement is then the only
         \* thing that says which row is older: `new_to_old` still means the last line is the oldest)
         \* ... or a row booked late: its date is older than that of the row before it in the statement (the statement's own
         \* order and its running balance are what count: sorting the rows by date would break the balance column)
         /\ \E dm \in {"distinct", "same", "late"} :
            /\ (dm # "distinct" => n >= 2 /\ cfg.conv \in {"none", "extract_pos"} /\ cfg.charge = "none" /\ ~cfg.cmdtcol /\ cfg.ruleconv = "none")
            /\ rows = [k \in 1..n |-> Row(cfg.conv, IF dm = "same" THEN 1 ELSE IF dm = "late" THEN (IF k = 1 THEN 2 ELSE IF k = 2 THEN 1 ELSE k) ELSE k, IF k % 2 = 1 THEN "Grocery Shop" ELSE "給料", as[k], rts[k], IF k = 2 THEN "a note" ELSE "", chs[k], cms[k])]
MCNext == UNCHANGED <<cfg, rows, opening>>
MCSpec == MCInit /\ [][MCNext]_<<cfg, rows, opening>>

DesignOK == AssetConsistentAccepted(cfg, rows, opening) /\ RateOnPricedCommodity(cfg, rows, opening)

DecJson(d) == IF d = NoD THEN [m |-> 0, s |-> -1] ELSE d
Emit == PrintT(<<"REPLAY", ToJson([module |-> "ImportCsv", cfg |-> cfg, opening |-> opening, head |-> HeadOf(cfg.skip),
                                   file_rows |-> [k \in 1..Len(rows) |-> FileOrder(cfg, rows)[k]],
                                   shown |-> [k \in 1..Len(rows) |-> ShownAmount(cfg, FileOrder(cfg, rows)[k])],
                                   running |-> [k \in 1..Len(rows) |-> RunningAtC(cfg, rows, k, opening)],
                                   final |-> [c \in {Primary, OtherCommodity} |-> RunningIn(cfg, rows, Len(rows), opening, c)],
                                   expect |-> Expected(cfg, rows, opening)])>>)
=============================================================================
