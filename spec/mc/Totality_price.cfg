SPECIFICATION Spec
CONSTANTS
  Seeds <- PriceSeedTexts
  InsertSeeds <- PriceSeedTexts
  Tokens <- PriceAlphabet
  NestDepths <- NoDepths
  Kind = "pricedb"
  MaxSteps = 1
INVARIANT EmitSeeds
CHECK_DEADLOCK FALSE
