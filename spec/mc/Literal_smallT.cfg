SPECIFICATION Spec
CONSTANTS
  Alphabet = {"0", "1", ",", ".", "-"}
  MaxLen = 10
INVARIANT ScannerMatchesGrammar
INVARIANT FailSticky
INVARIANT PrintParseRoundTrip
INVARIANT PrintIdempotent
CHECK_DEADLOCK FALSE
