SPECIFICATION MCLive
CONSTANTS
  Universe <- ArbUniverse
  Root <- MCRoot
  CharOrder <- MCCharOrder
  Patterns <- ArbPatterns
  Scenario = "arb"
  MaxItems = 1
  NEntries = 0
  MaxSplits = 0
INVARIANT DeliveredIsFlatten
INVARIANT StackSimple
PROPERTY Termination
CHECK_DEADLOCK FALSE
