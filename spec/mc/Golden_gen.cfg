SPECIFICATION GenSpec
CONSTANTS
  Chars = {"a", "CR", "LF"}
  MaxLen = 2
  MaxSteps = 5
INVARIANT Emit
CHECK_DEADLOCK FALSE
