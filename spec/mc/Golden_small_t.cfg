SPECIFICATION MCSpec
CONSTANTS
  Chars = {"a", "E", "CR", "LF"}
  MaxLen = 3
  MaxSteps = 3
VIEW ViewNoHist
INVARIANT TypeOK
PROPERTY NeverWritesUnlessTold
PROPERTY MissingIsError
PROPERTY UpdateWritesExactly
PROPERTY AssertFaithful
PROPERTY NewNeverWrites
CHECK_DEADLOCK FALSE
