SPECIFICATION MCSpec
CONSTANTS
  MatchTable <- MCMatchTable
  Scenario = "table"
  MaxRules = 3
INVARIANT FoldIsLeftToRight
INVARIANT LayersAgree
INVARIANT Emit
CHECK_DEADLOCK FALSE
