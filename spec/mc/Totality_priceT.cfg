SPECIFICATION WalkSpec
CONSTANTS
  Seeds <- PriceSeedTexts
  InsertSeeds <- PriceSeedTexts
  Tokens <- PriceAlphabet
  NestDepths <- NoDepths
  Kind = "pricedb"
  MaxSteps = 8
INVARIANT EmitSeeds
CHECK_DEADLOCK FALSE
