SPECIFICATION MCSpec
CONSTANTS
  Scenario = "arb"
  MaxLines = 5
  MaxRecs = 1
INVARIANT MachineMatchesGrammar
INVARIANT OnePerEntryLine
INVARIANT ReadsBounded
INVARIANT CountIsCursor
INVARIANT WellFormedScenario
INVARIANT ConsistentBalances
INVARIANT CursorInv
INVARIANT Emit
CHECK_DEADLOCK FALSE
