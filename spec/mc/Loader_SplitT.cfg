SPECIFICATION MCSpec
CONSTANTS
  Universe <- SplitUniverse
  Root <- MCRoot
  CharOrder <- MCCharOrder
  Patterns <- SplitPatterns
  Scenario = "split"
  MaxItems = 0
  NEntries = 5
  MaxSplits = 3
INVARIANT DeliveredIsFlatten
INVARIANT IncludeNeverDelivered
INVARIANT StackSimple
INVARIANT SplitIsFlat
INVARIANT NoStuck
INVARIANT Emit
CHECK_DEADLOCK FALSE
