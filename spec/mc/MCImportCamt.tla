----------------------------- MODULE MCImportCamt -----------------------------
EXTENDS ImportCamt, Json
CONSTANT MaxEntries
VARIABLES opening, entries, order

Det(a, c) == [amt |-> a, charge |-> c, rev |-> FALSE, figures |-> TRUE]
DetBare(a, c) == [amt |-> a, charge |-> c, rev |-> FALSE, figures |-> FALSE]     \* no amount before charges shown
Rev(a) == [amt |-> a, charge |-> DZero, rev |-> TRUE, figures |-> TRUE]
\* an entry amount and the ways it is batched (details sum to the entry; a charge is included in its detail)
Shapes0 == {
  [amt |-> D(100, 2), details |-> <<>>],
  [amt |-> D(1050, 2), details |-> <<>>],
  [amt |-> D(1050, 2), details |-> <<DetBare(D(1050, 2), D(50, 2))>>],
  [amt |-> D(2050, 2), details |-> <<DetBare(D(1050, 2), D(50, 2)), Det(D(1000, 2), DZero)>>],
  [amt |-> D(200, 2), details |-> <<Det(D(100, 2), DZero), Det(D(100, 2), DZero)>>],
  [amt |-> D(1050, 2), details |-> <<Det(D(1000, 2), DZero), Det(D(50, 2), DZero)>>],
  [amt |-> D(1050, 2), details |-> <<Det(D(1050, 2), D(50, 2))>>],
  [amt |-> D(123456, 2), details |-> <<Det(D(123456, 2), DZero)>>],
  [amt |-> D(100, 2), details |-> <<Det(D(200, 2), DZero), Rev(D(100, 2))>>],
  [amt |-> D(1050, 2), details |-> <<Rev(D(50, 2)), Det(D(1100, 2), DZero)>>],
  \* a charge credited back by the bank (charge record with CRDT): the other party got amount + charge
  [amt |-> D(1050, 2), details |-> <<Det(D(1050, 2), D(-50, 2))>>]
}
\* entries without details that carry their own included charge: a payment with a fee, and a pure fee
Shapes == {[amt |-> s.amt, details |-> s.details, charge |-> DZero] : s \in Shapes0}
          \cup {[amt |-> D(1050, 2), details |-> <<>>, charge |-> D(50, 2)], [amt |-> D(500, 2), details |-> <<>>, charge |-> D(500, 2)]}
Entries == {[cd |-> cd, amt |-> s.amt, vday |-> v, bday |-> b, details |-> s.details, charge |-> s.charge, sameref |-> sr] :
              cd \in {"CRDT", "DBIT"}, s \in Shapes, v \in {2, 3}, b \in {3}, sr \in BOOLEAN}
Usable(e) == /\ (e.sameref => Len(e.details) >= 2)
             /\ \A j \in 1..Len(e.details) : (e.details[j].charge # DZero => e.cd = "DBIT")
             /\ (e.charge # DZero => e.cd = "DBIT")

MCInit == /\ opening \in {DZero, D(100000, 2), D(-5000, 2)}
          /\ order \in {"old_to_new", "new_to_old"}
          /\ \E n \in 1..MaxEntries : entries \in {es \in [1..n -> {e \in Entries : Usable(e)}] : \A k \in 1..n : es[k].vday >= (IF k = 1 THEN 2 ELSE es[k - 1].vday)}
MCNext == UNCHANGED <<opening, entries, order>>
MCSpec == MCInit /\ [][MCNext]_<<opening, entries, order>>

DesignOK == (\A k \in 1..Len(entries) : EntryConsistent(entries[k])) /\ Conservation(opening, entries)
Emit == PrintT(<<"REPLAY", ToJson([module |-> "ImportCamt", opening |-> opening, closing |-> Closing(opening, entries), order |-> order,
                                   entries |-> entries, expect |-> Expected(opening, entries)])>>)
=============================================================================
