----------------------------- MODULE MCImportCamt -----------------------------
EXTENDS ImportCamt, Json
CONSTANT MaxEntries
VARIABLES opening, entries, order

Det(a, c) == [amt |-> a, charge |-> c, rev |-> FALSE, figures |-> TRUE, incl |-> TRUE]
DetBare(a, c) == [amt |-> a, charge |-> c, rev |-> FALSE, figures |-> FALSE, incl |-> TRUE]     \* no amount before charges shown
DetNI(a, c) == [amt |-> a, charge |-> c, rev |-> FALSE, figures |-> FALSE, incl |-> FALSE]      \* a charge that is not included
Rev(a) == [amt |-> a, charge |-> DZero, rev |-> TRUE, figures |-> TRUE, incl |-> TRUE]
\* an entry amount and the ways it is batched (details sum to the entry; a charge is included in its detail)
Shapes0 == {
  [amt |-> D(100, 2), details |-> <<>>],
  [amt |-> D(1050, 2), details |-> <<>>],
  [amt |-> D(1050, 2), details |-> <<DetBare(D(1050, 2), D(50, 2))>>],
  [amt |-> D(2050, 2), details |-> <<DetBare(D(1050, 2), D(50, 2)), Det(D(1000, 2), DZero)>>],
  [amt |-> D(200, 2), details |-> <<Det(D(100, 2), DZero), Det(D(100, 2), DZero)>>],
  [amt |-> D(1050, 2), details |-> <<Det(D(1000, 2), DZero), Det(D(50, 2), DZero)>>],
  [amt |-> D(1050, 2), details |-> <<Det(D(1050, 2), D(50, 2))>>],
  [amt |-> D(123456, 2), details |-> <<Det(D(123456, 2), DZero)>>],
  [amt |-> D(100, 2), details |-> <<Det(D(200, 2), DZero), Rev(D(100, 2))>>],
  [amt |-> D(1050, 2), details |-> <<Rev(D(50, 2)), Det(D(1100, 2), DZero)>>],
  \* a charge credited back by the bank (charge record with CRDT): the other party got amount + charge
  [amt |-> D(1050, 2), details |-> <<Det(D(1050, 2), D(-50, 2))>>]
}
\* entries without details that carry their own included charge: a payment with a fee, and a pure fee
Shapes == {[amt |-> s.amt, details |-> s.details, charge |-> DZero, chargeincl |-> TRUE] : s \in Shapes0}
          \cup {[amt |-> D(1050, 2), details |-> <<>>, charge |-> D(50, 2), chargeincl |-> TRUE], [amt |-> D(500, 2), details |-> <<>>, charge |-> D(500, 2), chargeincl |-> TRUE]}
          \* charges that are not included in the amount; an entry with details and a charge of its own
          \cup {[amt |-> D(1050, 2), details |-> <<>>, charge |-> D(50, 2), chargeincl |-> FALSE],
                [amt |-> D(1050, 2), details |-> <<DetNI(D(1050, 2), D(50, 2))>>, charge |-> DZero, chargeincl |-> TRUE],
                [amt |-> D(2050, 2), details |-> <<DetNI(D(1050, 2), D(50, 2)), Det(D(1000, 2), DZero)>>, charge |-> DZero, chargeincl |-> TRUE],
                [amt |-> D(2000, 2), details |-> <<Det(D(1000, 2), DZero), Det(D(1000, 2), DZero)>>, charge |-> D(50, 2), chargeincl |-> TRUE]}
Entries == {[cd |-> cd, amt |-> s.amt, vday |-> v, bday |-> b, details |-> s.details, charge |-> s.charge, chargeincl |-> s.chargeincl, sameref |-> sr] :
              cd \in {"CRDT", "DBIT"}, s \in Shapes, v \in {2, 3}, b \in {3}, sr \in BOOLEAN}
\* charges on debits and on credits (a credit is then net of the charge); a credited-back charge and charges that are
\* not included stay on debits
Usable(e) == /\ (e.sameref => Len(e.details) >= 2)
             /\ \A j \in 1..Len(e.details) : ((DecSign(e.details[j].charge) < 0 \/ ~e.details[j].incl) => e.cd = "DBIT")
             /\ ((e.charge # DZero /\ ~e.chargeincl) => e.cd = "DBIT")

MCInit == /\ opening \in {DZero, D(100000, 2), D(-5000, 2)}
          /\ order \in {"old_to_new", "new_to_old"}
          \* (statements of three entries: one opening balance, to keep the thorough tier within minutes)
          /\ \E n \in 1..MaxEntries : (n >= 3 => opening = D(100000, 2)) /\ entries \in {es \in [1..n -> {e \in Entries : Usable(e)}] : \A k \in 1..n : es[k].vday >= (IF k = 1 THEN 2 ELSE es[k - 1].vday)}
MCNext == UNCHANGED <<opening, entries, order>>
MCSpec == MCInit /\ [][MCNext]_<<opening, entries, order>>

DesignOK == (\A k \in 1..Len(entries) : EntryConsistent(entries[k])) /\ Conservation(opening, entries)
Emit == PrintT(<<"REPLAY", ToJson([module |-> "ImportCamt", opening |-> opening, closing |-> Closing(opening, entries), order |-> order,
                                   entries |-> entries, expect |-> Expected(opening, entries)])>>)
=============================================================================
