SPECIFICATION MCSpec
CONSTANTS
  Chars = {"a", "CR", "LF"}
  MaxLen = 2
  MaxSteps = 4
VIEW ViewNoHist
INVARIANT TypeOK
PROPERTY NeverWritesUnlessTold
PROPERTY MissingIsError
PROPERTY UpdateWritesExactly
PROPERTY AssertFaithful
PROPERTY NewNeverWrites
CHECK_DEADLOCK FALSE
