SPECIFICATION MCSpec
CONSTANTS
  Script <- ScriptConv
  DbChoices <- DbConv
  Scenario = "Conv"
INVARIANT AcceptedBalanced
INVARIANT RawEqualsFold
INVARIANT InvPricesExp
INVARIANT TargetUntouched
INVARIANT FailsIffMissing
INVARIANT SplitAdds
INVARIANT Emit
CHECK_DEADLOCK FALSE
