SPECIFICATION TraceSpec
CONSTANTS
  Universe <- AllUniverse
  Root <- MCRoot
  CharOrder <- MCCharOrder
  Patterns <- NoPatterns
INVARIANT DeliveredIsFlatten
INVARIANT IncludeNeverDelivered
INVARIANT StackSimple
POSTCONDITION TraceAccepted
CHECK_DEADLOCK FALSE
