SPECIFICATION TraceSpec
INVARIANT MachineMatchesGrammar
INVARIANT OnePerEntryLine
INVARIANT ReadsBounded
INVARIANT CountIsCursor
POSTCONDITION TraceAccepted
CHECK_DEADLOCK FALSE
