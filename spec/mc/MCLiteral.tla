------------------------------ MODULE MCLiteral ------------------------------
(* Bounded scenarios for Literal.tla and emission of the accept set.         *)
EXTENDS Literal, Json

\* ---- exhaustive: every string over Alphabet up to MaxLen (Literal!Spec)
\* one line per WELL-FORMED string; the harness enumerates the same space itself and
\* expects rejection of every string that is not emitted (or is marked lenient)
Flat(s) == s
Emit == (Syntactic(inp) /\ (WellFormed(inp) \/ Lenient(inp))) =>
           PrintT(<<"REPLAY", ToJson([module |-> "Literal", s |-> inp, wf |-> WellFormed(inp), lenient |-> Lenient(inp),
                                      value |-> Value(inp), canon |-> Render(Value(inp))])>>)

\* ---- long literals (simulation): walks that hug the 2^96 boundary and the 28-place limit
\* initial states: a prefix of 2^96-1 (every length), optionally negative, or "0." ; then free digits
LongInit == \E k \in 0..Len(Max96), neg \in BOOLEAN, frac \in BOOLEAN :
              /\ inp = (IF neg THEN <<"-">> ELSE <<>>) \o (IF frac THEN <<"0", ".">> ELSE SubSeq(Max96, 1, k))
              /\ st = Scan(inp)
LongChoices == {"0", "3", "4", "5", "6", "9"} \cup (IF Dots(inp) = {} THEN {"."} ELSE {})
LongNext == /\ Len(inp) < MaxLen
            /\ \E c \in LongChoices : inp' = Append(inp, c) /\ st' = ScanStep(st, c, inp = <<>>)
LongSpec == LongInit /\ [][LongNext]_lvars

\* every syntactically fine long string is emitted with the verdict (too large / too precise -> wf = FALSE)
EmitLong == (Syntactic(inp) /\ Len(inp) >= 20) =>
           PrintT(<<"REPLAY", ToJson([module |-> "Literal", s |-> inp, wf |-> WellFormed(inp), lenient |-> Lenient(inp),
                                      value |-> Value(inp), canon |-> IF WellFormed(inp) THEN Render(Value(inp)) ELSE <<>>])>>)
=============================================================================
