SPECIFICATION MCSpec
CONSTANTS
  MatchTable <- MCMatchTable
  Scenario = "layers"
  MaxRules = 3
INVARIANT FoldIsLeftToRight
INVARIANT LayersAgree
INVARIANT Emit
CHECK_DEADLOCK FALSE
