SPECIFICATION Spec
CONSTANTS
  Seeds <- SeedTexts
  InsertSeeds <- InsertSeedTexts
  Tokens <- Alphabet
  NestDepths <- MCNestDepths
  MaxSteps = 12
INVARIANT EmitSeeds
CHECK_DEADLOCK FALSE
