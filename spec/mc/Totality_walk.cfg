SPECIFICATION WalkSpec
CONSTANTS
  Seeds <- SeedTexts
  InsertSeeds <- InsertSeedTexts
  Tokens <- Alphabet
  NestDepths <- MCNestDepths
  Kind = "ledger"
  MaxSteps = 12
INVARIANT EmitSeeds
CHECK_DEADLOCK FALSE
