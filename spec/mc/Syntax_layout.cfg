SPECIFICATION MCSpec
CONSTANTS
  Scenario = "layout"
INVARIANT CanonLayoutOK
INVARIANT CanonIsARendering

INVARIANT Emit
CHECK_DEADLOCK FALSE
