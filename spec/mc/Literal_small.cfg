SPECIFICATION Spec
CONSTANTS
  Alphabet = {"0", "1", "7", ",", ".", "-"}
  MaxLen = 8
INVARIANT ScannerMatchesGrammar
INVARIANT FailSticky
INVARIANT PrintParseRoundTrip
INVARIANT PrintIdempotent
CHECK_DEADLOCK FALSE
