SPECIFICATION Spec
CONSTANTS
  Keys = {1, 2, 3}
  Vals = {10, 20}
INVARIANT ClassPrint
INVARIANT ClassPick
INVARIANT ClassFold
INVARIANT ClassFirst
INVARIANT ClassInvalid
INVARIANT ClassTwo
INVARIANT WitnessPrint
INVARIANT WitnessPick
INVARIANT WitnessFold
INVARIANT WitnessInvalid
INVARIANT WitnessTwo
INVARIANT DesignWellDefined
CHECK_DEADLOCK FALSE
