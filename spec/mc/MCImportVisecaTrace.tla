------------------------- MODULE MCImportVisecaTrace -------------------------
(* ImportVisecaTrace.tla has no constants; this wrapper lets TLC run it from spec/mc like every other configuration. *)
EXTENDS ImportVisecaTrace
=============================================================================
