---------------------------- MODULE MCGolden ----------------------------
(* Model-checking wrapper of Golden: step bound, behaviour emission.       *)
EXTENDS Golden, Json

CONSTANT MaxSteps
VARIABLES hist      \* sequence of `last` records = the behaviour so far

mcvars == <<vars, hist>>

MCInit == Init /\ hist = <<[op |-> "init", file |-> file, env |-> env]>>
MCNext == /\ Len(hist) <= MaxSteps
          /\ Next
          /\ hist' = Append(hist, [last' EXCEPT !.op = last'.op] @@ [file |-> file', loaded |-> loaded'])
MCSpec == MCInit /\ [][MCNext]_mcvars

\* ---- structured behaviours for replay: every (state, helper action) pair
\* of the model is reached by
\*   init(file0, env0); new; [write c | delete | nothing]; [setenv e]; assert(g) | new
Phase == Len(hist)
GenNext ==
  /\ Phase < MaxSteps
  /\ CASE Phase = 1 -> GNew
       [] Phase = 2 -> (\E c \in Content : ExternalWrite(c)) \/ ExternalDelete \/ SetEnv(env)
       [] Phase = 3 -> \E v \in {"unset", "empty", "set"} : SetEnv(v)
       [] Phase = 4 -> (\E g \in Content : GAssert(g)) \/ GNew
       [] Phase = 5 -> (\E g \in Content : GAssert(g))
       [] OTHER -> FALSE
  /\ hist' = Append(hist, last' @@ [file |-> file', loaded |-> loaded'])
GenSpec == MCInit /\ [][GenNext]_mcvars

ViewNoHist == <<vars, Len(hist)>>

Done == Phase = MaxSteps \/ (Phase = 5 /\ loaded = NoInstance)
Emit == Done => PrintT(<<"REPLAY", ToJson([module |-> "Golden", steps |-> hist])>>)
=============================================================================
