SPECIFICATION MCSpec
CONSTANTS
  Scenario = "wf"
  MaxLines = 1
  MaxRecs = 2
INVARIANT MachineMatchesGrammar
INVARIANT OnePerEntryLine
INVARIANT ReadsBounded
INVARIANT CountIsCursor
INVARIANT WellFormedScenario
INVARIANT ConsistentBalances
INVARIANT CursorInv
INVARIANT Emit
CHECK_DEADLOCK FALSE
