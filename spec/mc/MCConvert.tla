------------------------------ MODULE MCConvert ------------------------------
(* Scenarios for converted reports (C10): a small dated ledger with costs and
   an implied exchange, crossed with price-database contents. *)
EXTENDS Convert, Json

CONSTANTS Script, Scenario, DbChoices
VARIABLE si
mcvars == <<vars, si, db>>

Q(c, m, s) == [c |-> c, v |-> D(m, s)]
Rate(c, m, s) == [k |-> "rate", c |-> c, v |-> D(m, s)]
Total(c, m, s) == [k |-> "total", c |-> c, v |-> D(m, s)]
Reg(a, q) == [acct |-> a, kind |-> "reg", q |-> q, cost |-> NoEx, lot |-> NoEx, asrt |-> NoQ]
RegX(a, q, cost, lot, asrt) == [acct |-> a, kind |-> "reg", q |-> q, cost |-> cost, lot |-> lot, asrt |-> asrt]
Omit(a) == [acct |-> a, kind |-> "omit", q |-> NoQ, cost |-> NoEx, lot |-> NoEx, asrt |-> NoQ]
DeclC(n, as, p) == [k |-> "cmdt", name |-> n, aliases |-> as, prec |-> p]
DeclSlot(ch, opt) == [t |-> "decl", choices |-> ch, optional |-> opt]
TxnSlotD(ds, first, others, mn, mx) == [t |-> "txn", dates |-> ds, first |-> first, rest |-> others, min |-> mn, max |-> mx]
DbEv(date, of, with, a, b) == [src |-> "db", date |-> date, of |-> of, with |-> with, r |-> <<a, b>>]

\* T is the usual target; X and Y are held.  All values are 2^a 5^b.
First1 == {RegX("A", Q("X", 2, 0), Rate("T", 2, 0), NoEx, NoQ),     \* 2 X @ 2 T
           RegX("A", Q("X", 4, 1), Rate("T", 5, 0), NoEx, NoQ),     \* 0.4 X @ 5 T   (rounds away at precision 0)
           RegX("A", Q("X", 1, 0), NoEx, Rate("T", 4, 0), NoQ),     \* 1 X {4 T}
           Reg("A", Q("T", 5, 0))}
First2 == {RegX("B", Q("X", 1, 0), Rate("T", 4, 0), NoEx, NoQ),     \* 1 X @ 4 T
           RegX("B", Q("Y", 2, 0), Total("X", 4, 0), NoEx, NoQ),    \* 2 Y @@ 4 X
           Reg("A", Q("X", -1, 0)),
           Reg("B", Q("Y", 1, 0))}
Second2 == {Omit("E"), Reg("E", Q("T", -4, 0))}                     \* an implied exchange with the first
ScriptConv == <<DeclSlot({DeclC("T", <<>>, 0), DeclC("X", <<>>, 0)}, TRUE),
                TxnSlotD({1, 2}, First1, {Omit("E")}, 2, 2),
                TxnSlotD({1, 3}, First2, Second2, 2, 2)>>
DbConv == {<<>>, <<DbEv(2, "X", "T", 0, 1)>>, <<DbEv(1, "Y", "X", 1, 0), DbEv(3, "X", "T", 1, 1)>>, <<DbEv(3, "Y", "T", 1, 0)>>}

ScriptConvT == <<DeclSlot({DeclC("T", <<>>, 0), DeclC("X", <<>>, 0), DeclC("T", <<>>, 1)}, TRUE),
                 TxnSlotD({1, 2}, First1, {Omit("E")}, 2, 2),
                 TxnSlotD({1, 2, 3}, First2, Second2, 2, 2),
                 TxnSlotD({2, 3}, First1 \cup First2, Second2, 2, 2)>>
DbConvT == DbConv \cup {<<DbEv(2, "T", "X", -1, 0)>>, <<DbEv(1, "X", "T", 0, 1), DbEv(2, "X", "T", 1, 0), DbEv(2, "Y", "T", 0, 1)>>}

MCInit == Init /\ si = 0 /\ db \in DbChoices
MCNext ==
  /\ UNCHANGED db
  /\ \/ /\ Between /\ si < Len(Script)
        /\ LET sl == Script[si + 1] IN
           \/ /\ sl.t = "decl" /\ si' = si + 1 /\ \E e \in sl.choices : DeclCommodity(e)
           \/ /\ sl.t = "decl" /\ sl.optional /\ si' = si + 1 /\ UNCHANGED vars
           \/ /\ sl.t = "txn" /\ si' = si + 1 /\ \E d \in sl.dates : BeginTxn(d)
     \/ /\ InTxn /\ pi <= Script[si].max /\ UNCHANGED si
        /\ \E p \in (IF pi = 1 THEN Script[si].first ELSE Script[si].rest) : Post(p)
     \/ /\ InTxn /\ pi > Script[si].min /\ UNCHANGED si /\ CommitOrReject
     \/ /\ Between /\ si = Len(Script) /\ UNCHANGED si /\ Finish
MCSpec == MCInit /\ [][MCNext]_mcvars

\* ---- queries replayed against the code
RangesQ == {<<NoBound, NoBound>>, <<2, NoBound>>, <<NoBound, 2>>, <<2, 3>>, <<1, 4>>, <<3, 3>>}
TargetsQ == {"T", "X"}
Rep(r) == [ok |-> r.ok, vals |-> r.vals]
QueriesUp == {[strategy |-> "uptodate", target |-> T, now |-> d, s |-> rg[1], e |-> rg[2],
               res |-> [a \in AccountsOfReg |-> Rep(UpToDate(a, T, d, rg[1], rg[2]))]] : T \in TargetsQ, d \in {1, 2, 4}, rg \in RangesQ}
QueriesHist == {[strategy |-> "historical", target |-> T, now |-> 0, s |-> rg[1], e |-> rg[2],
               res |-> [a \in AccountsOfReg |-> Rep(Historical(a, T, rg[1], rg[2]))]] : T \in TargetsQ, rg \in RangesQ}
Emit == (status.s = "ok" /\ PricesExpOK) =>
   PrintT(<<"REPLAY", ToJson([module |-> "Convert", scenario |-> Scenario, input |-> input, db |-> db, prec |-> prec,
            queries |-> QueriesUp \cup QueriesHist])>>)
InvPricesExp == status.s = "ok" => PricesExpOK
=============================================================================
