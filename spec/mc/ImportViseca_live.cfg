SPECIFICATION MCSpec
CONSTANTS
  Scenario = "arb"
  MaxLines = 3
  MaxRecs = 1
PROPERTY Termination
PROPERTY RefinesCursor
INVARIANT CursorInv
CHECK_DEADLOCK FALSE
