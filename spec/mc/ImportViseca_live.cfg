SPECIFICATION MCSpec
CONSTANTS
  Scenario = "arb"
  MaxLines = 3
  MaxRecs = 1
PROPERTY Termination
CHECK_DEADLOCK FALSE
