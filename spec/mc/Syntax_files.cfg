SPECIFICATION MCSpec
CONSTANTS
  Scenario = "files"
INVARIANT CanonLayoutOK
INVARIANT CanonIsARendering
INVARIANT Emit
CHECK_DEADLOCK FALSE
