SPECIFICATION TraceSpec
INVARIANT AcceptedBalanced
INVARIANT RejectJustified
INVARIANT AssertionsTrue
INVARIANT AssignExact
INVARIANT RawEqualsFold
INVARIANT NoZeroCommodity
INVARIANT CanonicalOnly
INVARIANT LookupCanonical
POSTCONDITION TraceAccepted
CHECK_DEADLOCK FALSE
