SPECIFICATION MCSpec
CONSTANTS
  Script <- ScriptDeferred
  Scenario = "Deferred"
INVARIANT AcceptedBalanced
INVARIANT RejectJustified
INVARIANT AssertionsTrue
INVARIANT AssignExact
INVARIANT RawEqualsFold
INVARIANT NoZeroCommodity
INVARIANT CanonicalOnly
INVARIANT LookupCanonical
INVARIANT NoStuck
INVARIANT Emit
CHECK_DEADLOCK FALSE
