------------------------------ MODULE ImportCamt ------------------------------
(***************************************************************************)
(* C18: an ISO Camt053 statement and the ledger it becomes.  The statement *)
(* has an opening balance, entries (credit or debit, amount, value date,   *)
(* booking date, optionally a batch of details that sum to the entry, a    *)
(* detail optionally carrying a charge that is included in its amount) and *)
(* a closing balance.  The expected ledger asserts the opening balance on  *)
(* a first zero transaction, books one transaction per entry or per detail *)
(* (account posting + for credit, - for debit; dated by value date, the    *)
(* booking date as effective date when different) and asserts the closing  *)
(* balance on the last one.  Conservation: for a consistent statement each *)
(* transaction balances and the running total from the opening balance     *)
(* reaches the closing balance - so book-keeping accepts the ledger.        *)
(***************************************************************************)
EXTENDS Dec, Sequences, FiniteSets, TLC

NoD == [m |-> 0, s |-> -1]
Account == "Assets:Src"
Ccy == "CHF"

\* entry: [cd |-> "CRDT"|"DBIT", amt, vday, bday, charge, sameref, details |-> Seq([amt, charge, rev, figures])]
\* sameref = TRUE: every detail of the batch repeats the batch's booking reference (the reference is a label, not a
\* key: each detail is still one transaction)
\* a detail has its own direction: rev = TRUE means opposite to the entry's (a refund inside a batch of payments);
\* a charge is included in the amount it stands next to (a detail's, or the entry's own when it has no details);
\* figures = TRUE: the statement also shows the amount before charges (AmtDtls) - what the other party got is the
\* same either way, amount minus charge
\* incl = FALSE (a detail's) / chargeincl = FALSE (the entry's own): the charge record says the charge is NOT part of
\* the amount it stands next to; and an entry that has both details and a charge of its own.  For these the
\* property fixes less: the account still moves by exactly the detail's (entry's) amount and the transaction still
\* balances, but how the rest is divided between the counter posting and Expenses:Commissions is okane's choice
\* (`loose`): a different division is not a violation of conservation.
Signed(cd, v) == IF cd = "CRDT" THEN v ELSE DecNeg(v)
RECURSIVE SumAmt(_, _)
SumAmt(ds, i) == IF i > Len(ds) THEN DZero ELSE DecAdd(IF ds[i].rev THEN DecNeg(ds[i].amt) ELSE ds[i].amt, SumAmt(ds, i + 1))
EntryConsistent(e) == e.details = <<>> \/ SumAmt(e.details, 1) = e.amt
RECURSIVE Net(_, _)
Net(es, i) == IF i > Len(es) THEN DZero ELSE DecAdd(Signed(es[i].cd, es[i].amt), Net(es, i + 1))
Closing(opening, es) == DecAdd(opening, Net(es, 1))

\* ---------------------------------------------------------------- expected ledger (entries oldest first)
Flip(cd) == IF cd = "CRDT" THEN "DBIT" ELSE "CRDT"
Txn(e, cd, amt, charge, ref, loose) ==
  [day |-> e.vday, loose |-> loose, eday |-> IF e.bday = e.vday THEN 0 ELSE e.bday, code |-> ref,
   src |-> Signed(cd, amt),                          \* the account posting
   charge |-> charge,                                \* Expenses:Commissions posting (0 = none)
   \* counter posting: what the other party got or gave - the account's movement with the charge taken out
   \* (a debit of 10.50 with a charge of 0.50 pays 10.00; a credit of 250 net of a charge of 5 was a payment of 255)
   dest |-> DecNeg(DecAdd(Signed(cd, amt), charge)),
   assert |-> NoD]
TxnsOfEntry(e, k) ==
  IF e.details = <<>> THEN <<Txn(e, e.cd, e.amt, e.charge, "", ~e.chargeincl)>>
  ELSE [j \in 1..Len(e.details) |-> Txn(e, IF e.details[j].rev THEN Flip(e.cd) ELSE e.cd, e.details[j].amt, DecAdd(e.details[j].charge, e.charge),
                                        IF e.sameref THEN "R" \o ToString(k) ELSE "R" \o ToString(k) \o "-" \o ToString(j),
                                        ~e.details[j].incl \/ ~DecIsZero(e.charge))]
RECURSIVE Flatten(_, _)
Flatten(es, k) == IF k > Len(es) THEN <<>> ELSE TxnsOfEntry(es[k], k) \o Flatten(es, k + 1)

OpeningTxn(opening) == [day |-> 0, loose |-> FALSE, eday |-> 0, code |-> "", src |-> DZero, charge |-> DZero, dest |-> DZero, assert |-> opening]
Expected(opening, es) ==
  LET ts == Flatten(es, 1)
      n == Len(ts)
  IN <<OpeningTxn(opening)>> \o [i \in 1..n |-> IF i = n THEN [ts[i] EXCEPT !.assert = Closing(opening, es)] ELSE ts[i]]

\* ---------------------------------------------------------------- conservation (design check)
TxnBalanced(t) == DecIsZero(DecAdd(DecAdd(t.src, t.charge), t.dest))
RECURSIVE RunningTo(_, _, _)
RunningTo(ts, i, start) == IF i = 0 THEN start ELSE DecAdd(RunningTo(ts, i - 1, start), ts[i].src)
Conservation(opening, es) ==
  LET ts == Expected(opening, es) IN
  /\ \A i \in 1..Len(ts) : TxnBalanced(ts[i])
  /\ \A i \in 1..Len(ts) : ts[i].assert # NoD => RunningTo(ts, i, opening) = ts[i].assert    \* given the account held the opening balance
  /\ RunningTo(ts, Len(ts), opening) = Closing(opening, es)
  /\ ts[1].assert = opening /\ ts[Len(ts)].assert = Closing(opening, es)
=============================================================================
