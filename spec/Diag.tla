-------------------------------- MODULE Diag --------------------------------
(***************************************************************************)
(* Where a diagnostic must point (C14).  A file is a sequence of blocks    *)
(* (blank lines, comments with multi-byte text, valid entries) followed by *)
(* the one bad entry; files end their lines with LF or CRLF; the bad entry *)
(* sits in the root file or in a file reached through one or two includes. *)
(*                                                                         *)
(* The line of a position is defined twice: by counting line-feed tokens   *)
(* of the flattened character stream before it (what "line number of the   *)
(* original file" means), and by block arithmetic; TLC checks they agree,  *)
(* for every arrangement in the bound.                                     *)
(***************************************************************************)
EXTENDS Integers, Sequences, FiniteSets, TLC

\* ---------------------------------------------------------------- blocks
BlockLines(b) ==
  CASE b = "blank1" -> <<"">>
    [] b = "blank2" -> <<"", "">>
    [] b = "blanks" -> <<"  ">>                                  \* a line of blanks is vertical space too
    [] b = "comment" -> <<"; コメント 日本語", "; second line">>
    [] b = "txn" -> <<"2024/01/01 ok", "    A  1 X", "    B">>
    [] b = "txnmeta" -> <<"2024/01/01 ok ; 注", "    ; :tag:", "    A  1 X", "    B  -1 X">>
BlockKinds == {"blank1", "blank2", "blanks", "comment", "txn", "txnmeta"}

\* the bad entry: its lines, the class of error, and the line (within the entry) the diagnostic
\* has to include: where parsing stopped, or the posting whose assertion / rate is wrong
Faults == {
  [id |-> "syn1", class |-> "parse", lines |-> <<"2024/13/45 bad", "    A  1 X", "    B">>, at |-> 1],
  [id |-> "syn2", class |-> "parse", lines |-> <<"2024/01/02 bad", "    A  1 X ~ 2", "    B">>, at |-> 2],
  [id |-> "syn3", class |-> "parse", lines |-> <<"2024/01/02 bad", "    A  1 X", "    B  1 X ~ 5 X", "    C">>, at |-> 3],
  [id |-> "syn4", class |-> "parse", lines |-> <<"2024/01/02 bad ; 注", "    ; メモ", "    A  1,2 X", "    B">>, at |-> 3],
  \* parsing stops exactly at the end of a line (a directive without its argument, a date cut short)
  [id |-> "syn5", class |-> "parse", lines |-> <<"account">>, at |-> 1],
  [id |-> "syn6", class |-> "parse", lines |-> <<"2024">>, at |-> 1],
  [id |-> "unbalanced", class |-> "UnbalancedPostings", lines |-> <<"2024/01/02 bad", "    A  1 X", "    B  2 X">>, at |-> 0],
  [id |-> "assert1", class |-> "BalanceAssertionFailure", lines |-> <<"2024/01/02 bad", "    A  1 X = 7 X", "    B">>, at |-> 2],
  [id |-> "assert2", class |-> "BalanceAssertionFailure", lines |-> <<"2024/01/02 bad", "    A  1 X", "    B  -1 X = 7 X">>, at |-> 3],
  [id |-> "assert3", class |-> "BalanceAssertionFailure", lines |-> <<"2024/01/02 bad", "    ; 注 note", "    A  1 X", "    ; posting note", "    B  -1 X = 7 X">>, at |-> 5],
  [id |-> "twoomit", class |-> "UndeduciblePostingAmount", lines |-> <<"2024/01/02 bad", "    A", "    B">>, at |-> 3],
  [id |-> "zerorate", class |-> "ZeroExchangeRate", lines |-> <<"2024/01/02 bad", "    A  1 X @ 0 Y", "    B">>, at |-> 2],
  [id |-> "samecmdt", class |-> "ExchangeWithAmountCommodity", lines |-> <<"2024/01/02 bad", "    A  1 X", "    B  1 X @ 2 X", "    C">>, at |-> 3]
}

\* ---------------------------------------------------------------- the arrangement (state)
VARIABLE d    \* [pre |-> Seq(block kind), fault, nl |-> "LF"|"CRLF", depth |-> 0..2, via |-> "sub"|"parent", after |-> BOOLEAN, tight |-> BOOLEAN]

RECURSIVE LinesOf(_)
LinesOf(bs) == IF bs = <<>> THEN <<>> ELSE BlockLines(bs[1]) \o LinesOf(Tail(bs))

PreLines == LinesOf(d.pre)
\* what follows the bad entry: nothing, a blank line and a valid entry, or (tight) the next entries on the very next line
AfterLines == IF ~d.after THEN <<>>
              ELSE IF d.tight THEN <<"; the next entry follows directly">> \o BlockLines("txn")
              ELSE <<"">> \o BlockLines("txn")
BadFileLines == PreLines \o d.fault.lines \o AfterLines

\* the tree: paths as strings relative to the root directory
RootPath == "main.ledger"
ChildPath == "sub/child.ledger"
GrandPath == IF d.via = "parent" THEN "other.ledger" ELSE "sub/deep/grand.ledger"
GrandInclude == IF d.via = "parent" THEN "include ../other.ledger" ELSE "include deep/grand.ledger"
Files ==
  CASE d.depth = 0 -> <<[path |-> RootPath, lines |-> BadFileLines]>>
    [] d.depth = 1 -> <<[path |-> RootPath, lines |-> <<"; root", "">> \o BlockLines("txn") \o <<"", "include " \o ChildPath, "">> \o BlockLines("txn")],
                        [path |-> ChildPath, lines |-> BadFileLines]>>
    [] d.depth = 2 -> <<[path |-> RootPath, lines |-> <<"include " \o ChildPath>>],
                        [path |-> ChildPath, lines |-> BlockLines("comment") \o BlockLines("txn") \o <<"", GrandInclude, "">> \o BlockLines("txn")],
                        [path |-> GrandPath, lines |-> BadFileLines]>>
ExpectedFile == CASE d.depth = 0 -> RootPath [] d.depth = 1 -> ChildPath [] d.depth = 2 -> GrandPath

\* ---------------------------------------------------------------- line numbers, twice
\* (1) block arithmetic
FirstLine == 1 + Len(PreLines)
LastLine == FirstLine + Len(d.fault.lines) - 1
FaultLine == IF d.fault.at = 0 THEN 0 ELSE FirstLine + d.fault.at - 1

\* (2) counting line feeds in the character stream: every line is its text followed by LF, or CR LF
Tok(k, s) == [k |-> k, s |-> s]
RECURSIVE Stream(_, _)
Stream(lines, nl) == IF lines = <<>> THEN <<>>
                     ELSE <<Tok("text", lines[1])>> \o (IF nl = "CRLF" THEN <<Tok("CR", ""), Tok("LF", "")>> ELSE <<Tok("LF", "")>>)
                          \o Stream(Tail(lines), nl)
\* index in the stream of the text token of line n of the bad file
TokensPerLine == IF d.nl = "CRLF" THEN 3 ELSE 2
TokenOfLine(n) == (n - 1) * TokensPerLine + 1
LineAt(stream, i) == 1 + Cardinality({j \in 1..(i - 1) : stream[j].k = "LF"})

LineArithmetic ==
  LET s == Stream(BadFileLines, d.nl) IN
  /\ s[TokenOfLine(FirstLine)].s = d.fault.lines[1]                       \* that token is the entry's first line
  /\ LineAt(s, TokenOfLine(FirstLine)) = FirstLine
  /\ LineAt(s, TokenOfLine(LastLine)) = LastLine
  /\ s[TokenOfLine(LastLine)].s = d.fault.lines[Len(d.fault.lines)]
  /\ d.fault.at # 0 => FaultLine \in FirstLine..LastLine

\* what C14 demands of the diagnostic
Expected == [file |-> ExpectedFile, first |-> FirstLine,
             last |-> IF d.fault.class = "parse" THEN FaultLine ELSE LastLine,     \* syntax error: up to the line where parsing stopped
             must_show |-> FaultLine, class |-> d.fault.class]

Next == UNCHANGED d
=============================================================================
