-------------------------------- MODULE Dec --------------------------------
(***************************************************************************)
(* Decimal numbers as okane's rust_decimal values: mantissa and scale.     *)
(* Values are kept normalised (no trailing zero in the fraction) so that   *)
(* structural equality is numeric equality; modules that care about the    *)
(* written scale (Literal, Syntax) carry it separately.                    *)
(***************************************************************************)
EXTENDS Integers

RECURSIVE Pow10(_)
Pow10(n) == IF n <= 0 THEN 1 ELSE 10 * Pow10(n - 1)

Max(a, b) == IF a >= b THEN a ELSE b
Min(a, b) == IF a <= b THEN a ELSE b
Abs(n) == IF n < 0 THEN -n ELSE n
Sgn(n) == IF n < 0 THEN -1 ELSE IF n > 0 THEN 1 ELSE 0

RECURSIVE Norm(_)
Norm(d) == IF d.m = 0 THEN [m |-> 0, s |-> 0]
           ELSE IF d.s > 0 /\ d.m % 10 = 0 THEN Norm([m |-> d.m \div 10, s |-> d.s - 1])
           ELSE d

D(m, s) == Norm([m |-> m, s |-> s])
DZero == [m |-> 0, s |-> 0]
DOne == [m |-> 1, s |-> 0]

Align(a, s) == a.m * Pow10(s - a.s)              \* requires s >= a.s
DecAdd(a, b) == LET s == Max(a.s, b.s) IN D(Align(a, s) + Align(b, s), s)
DecNeg(a) == [m |-> -a.m, s |-> a.s]
DecSub(a, b) == DecAdd(a, DecNeg(b))
DecMul(a, b) == D(a.m * b.m, a.s + b.s)
DecAbs(a) == [m |-> Abs(a.m), s |-> a.s]
DecIsZero(a) == a.m = 0
DecSign(a) == Sgn(a.m)
DecLess(a, b) == LET s == Max(a.s, b.s) IN Align(a, s) < Align(b, s)

\* n / d rounded to the nearest integer, ties to even (d > 0); TLC's \div floors
\* and % is non-negative, which is what makes this right for negative n too.
RoundHalfEvenDiv(n, d) ==
  LET q == n \div d
      r == n % d
  IN IF 2 * r < d THEN q
     ELSE IF 2 * r > d THEN q + 1
     ELSE IF q % 2 = 0 THEN q ELSE q + 1

\* rust_decimal's round_dp_with_strategy(dp, MidpointNearestEven)
DecRound(a, dp) == IF dp >= a.s THEN a
                   ELSE D(RoundHalfEvenDiv(a.m, Pow10(a.s - dp)), dp)
=============================================================================
