------------------------------ MODULE Totality ------------------------------
(***************************************************************************)
(* C06: the space of inputs on which parsing, formatting, loading and the  *)
(* report commands must terminate with a result or an error.  A mutation   *)
(* machine over texts: starting from valid ledgers (renderings of          *)
(* Syntax.tla's catalogue), every reachable state is an input.             *)
(*   Truncate(k)      every prefix, cut at every character                 *)
(*   Insert(p, tok)   a token of the ledger alphabet or an awkward         *)
(*                    Unicode scalar at every position                     *)
(*   Delete(p, n)     a short range removed                                *)
(*   Splice(p, t, q)  the head of one text glued to the tail of another    *)
(*   Duplicate        the text twice                                       *)
(*   NestText(n)      an amount wrapped in n pairs of parentheses (a seed) *)
(*   ChainText(n)     an amount that is a flat chain of n terms (a seed)   *)
(*   NestChainText(g, n)  g groups nested as each other's left-most        *)
(*                    operand, each a chain of n operators (a seed): the   *)
(*                    depths of nesting and of the chains add up           *)
(* The design-level totality of book-keeping, loading (cycles included),   *)
(* literals and expressions is NoStuck / Termination in their own modules. *)
(***************************************************************************)
EXTENDS Integers, Sequences, TLC

CONSTANTS Seeds,        \* valid texts
          InsertSeeds,  \* the texts that receive insertions (a subset, to keep the exhaustive tier small)
          Tokens,       \* what can be inserted
          NestDepths,   \* depths for Nest
          MaxSteps      \* number of mutations applied in a row

VARIABLES text, steps, lastop
tvars == <<text, steps, lastop>>

RECURSIVE Rep(_, _)
Rep(s, n) == IF n <= 0 THEN "" ELSE LET h == Rep(s, n \div 2) IN h \o h \o (IF n % 2 = 1 THEN s ELSE "")
Cut(s, i, j) == IF j < i THEN "" ELSE SubSeq(s, i, j)

NestText(n) == "2024/01/01 nest\n    A  " \o Rep("(", n) \o "1 X" \o Rep(")", n) \o "\n    B\n"
\* `1 + 1 + ... + 1 X`: no nesting at all in the text, yet a left-deep tree as deep as the chain is long
ChainText(n) == "2024/01/01 chain\n    A  (" \o Rep("1 + ", n - 1) \o "1 X)\n    B\n"
\* `(((1 X + 1 X ...) + 1 X ...) + 1 X ...)`: each group is the left-most operand of the enclosing chain, so the tree is
\* as deep as all the chains together although no group is nested deeply and no single chain is long
NestChainText(g, n) == "2024/01/01 nestchain\n    A  " \o Rep("(", g) \o "1 X" \o Rep(Rep(" + 1 X", n) \o ")", g) \o "\n    B\n"
NestChainShapes == IF NestDepths = {} THEN {} ELSE {<<12, 90>>, <<8, 1000>>, <<100, 300>>, <<100, 1000>>, <<127, 1023>>}
Init == \/ text \in Seeds /\ steps = 0 /\ lastop = "seed"
        \/ \E p \in NestChainShapes : text = NestChainText(p[1], p[2]) /\ steps = MaxSteps /\ lastop = "nestchain"
        \/ \E n \in NestDepths : text = NestText(n) /\ steps = MaxSteps /\ lastop = "nest"
        \/ \E n \in NestDepths : text = ChainText(n) /\ steps = MaxSteps /\ lastop = "chain"

Step(op, t) == text' = t /\ steps' = steps + 1 /\ lastop' = op

Truncate == \E k \in 0..(Len(text) - 1) : Step("truncate", Cut(text, 1, k))
Insert == (steps > 0 \/ text \in InsertSeeds) /\
          \E p \in 0..Len(text), tok \in Tokens : Step("insert", Cut(text, 1, p) \o tok \o Cut(text, p + 1, Len(text)))
Delete == \E p \in 1..Len(text), n \in {1, 2, 5} : Step("delete", Cut(text, 1, p - 1) \o Cut(text, p + n, Len(text)))
Splice == steps > 0 /\ \E t \in InsertSeeds, p \in 0..Len(text) : \E q \in 1..Len(t) : Step("splice", Cut(text, 1, p) \o Cut(t, q, Len(t)))
Duplicate == Len(text) < 2000 /\ Step("duplicate", text \o text)
Next == steps < MaxSteps /\ (Truncate \/ Insert \/ Delete \/ Splice \/ Duplicate)
Spec == Init /\ [][Next]_tvars

\* Random walks (thorough tier, `tlc -simulate`): the same actions with their parameters drawn at random, so that a
\* state has five successors instead of every cut / insertion point (TLC's simulator generates and checks all
\* successors of a state before it picks one).  Every WalkNext step is a Next step.
\* (a value drawn with RandomElement is bound by \E over a singleton: a LET definition would be drawn again at each use)
RTruncate == Len(text) > 0 /\ \E k \in {RandomElement(0..(Len(text) - 1))} : Step("truncate", Cut(text, 1, k))
RInsert == \E p \in {RandomElement(0..Len(text))} : \E tok \in {RandomElement(Tokens)} :
             Step("insert", Cut(text, 1, p) \o tok \o Cut(text, p + 1, Len(text)))
RDelete == Len(text) > 0 /\ \E p \in {RandomElement(1..Len(text))} : \E n \in {RandomElement({1, 2, 5})} :
             Step("delete", Cut(text, 1, p - 1) \o Cut(text, p + n, Len(text)))
RSplice == \E t \in {RandomElement(InsertSeeds)} : \E p \in {RandomElement(0..Len(text))} : \E q \in {RandomElement(1..Len(t))} :
             Step("splice", Cut(text, 1, p) \o Cut(t, q, Len(t)))
WalkNext == steps < MaxSteps /\ (RTruncate \/ RInsert \/ RDelete \/ RSplice \/ Duplicate)
WalkSpec == Init /\ [][WalkNext]_tvars
=============================================================================
