-------------------------------- MODULE Amt --------------------------------
(***************************************************************************)
(* Multi-commodity amounts: a function from an explicit finite domain of   *)
(* commodity names to Dec.  The domain is state: okane distinguishes `0`,  *)
(* `0 X` and `0 X + 0 Y` (sums retain zero entries, balances strip them).  *)
(***************************************************************************)
EXTENDS Dec, FiniteSets

AmtEmpty == [c \in {} |-> DZero]
AmtOf(c, v) == [x \in {c} |-> v]
AmtGet(a, c) == IF c \in DOMAIN a THEN a[c] ELSE DZero
AmtAdd(a, b) == [x \in DOMAIN a \cup DOMAIN b |-> DecAdd(AmtGet(a, x), AmtGet(b, x))]
AmtNeg(a) == [x \in DOMAIN a |-> DecNeg(a[x])]
AmtSet(a, c, v) == [x \in DOMAIN a \cup {c} |-> IF x = c THEN v ELSE a[x]]
NonZeroDom(a) == {c \in DOMAIN a : ~DecIsZero(a[c])}
Strip(a) == [x \in NonZeroDom(a) |-> a[x]]
AllZero(a) == \A c \in DOMAIN a : DecIsZero(a[c])
\* prec: function from (some) commodities to a number of decimal places
AmtRound(a, prec) == [x \in DOMAIN a |-> IF x \in DOMAIN prec THEN DecRound(a[x], prec[x]) ELSE a[x]]
\* exactly two non-zero commodities of opposite sign
OppositePair(a) ==
  /\ Cardinality(NonZeroDom(a)) = 2
  /\ \E c1, c2 \in NonZeroDom(a) : c1 # c2 /\ DecSign(a[c1]) = -DecSign(a[c2])
=============================================================================
