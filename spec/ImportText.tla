------------------------------ MODULE ImportText ------------------------------
(***************************************************************************)
(* C15: which statement texts can be written into a ledger transaction and *)
(* read back unchanged.  Representable(...) states, field by field, the    *)
(* conditions under which the documented grammar (Syntax.tla's Render)     *)
(* reads a field back as the same field: a payee must not contain `;`, CR  *)
(* or LF and must not begin like a code;               a code must not   *)
(* contain parentheses or line ends; a comment must not contain line ends  *)
(* and must not look like tags or a key-value pair.  An importer has to    *)
(* print only representable fields (sanitising or rejecting the rest), so  *)
(* that what it prints parses back into exactly what it built.  The        *)
(* catalogue below has, for every conjunct, texts that violate it.         *)
(***************************************************************************)
EXTENDS Integers, Sequences, FiniteSets, TLC

Contains(s, sub) == \E i \in 0..(Len(s) - Len(sub)) : SubSeq(s, i + 1, i + Len(sub)) = sub
StartsWith(s, p) == Len(s) >= Len(p) /\ SubSeq(s, 1, Len(p)) = p
HasLineEnd(s) == Contains(s, "\n") \/ Contains(s, "\r")

PayeeFaults(s) == (IF Contains(s, ";") THEN {"payee_semicolon"} ELSE {})
             \cup (IF HasLineEnd(s) THEN {"payee_line_end"} ELSE {})
             \cup (IF StartsWith(s, "(") /\ Contains(s, ")") THEN {"payee_looks_like_code"} ELSE {})
\* (a payee that begins with `*` or `!` would be read as a clear mark only in a transaction that has none of its
\*  own; imported transactions always carry `*`, so such payees are representable here - they stay in the catalogue)
CodeFaults(s) == (IF Contains(s, ")") \/ Contains(s, "(") THEN {"code_paren"} ELSE {})
            \cup (IF HasLineEnd(s) THEN {"code_line_end"} ELSE {})
\* a comment that starts with `word:` is a key-value tag, one that starts with `:word:` is a tag list
FirstColon(s) == IF Contains(s, ":") THEN CHOOSE i \in 1..Len(s) : SubSeq(s, i, i) = ":" /\ \A j \in 1..(i - 1) : SubSeq(s, j, j) # ":" ELSE 0
LooksLikeKV(s) == LET i == FirstColon(s) IN i > 1 /\ ~Contains(SubSeq(s, 1, i - 1), " ")
LooksLikeTags(s) == StartsWith(s, ":") /\ Len(s) >= 3 /\ SubSeq(s, Len(s), Len(s)) = ":" /\ ~Contains(s, " ")
NoteFaults(s) == (IF HasLineEnd(s) THEN {"note_line_end"} ELSE {})
            \cup (IF LooksLikeKV(s) THEN {"note_looks_like_key_value"} ELSE {})
            \cup (IF LooksLikeTags(s) THEN {"note_looks_like_tags"} ELSE {})

Faults(r) == PayeeFaults(r.payee) \cup (IF r.code = "~" THEN {} ELSE CodeFaults(r.code)) \cup (IF r.note = "" THEN {} ELSE NoteFaults(r.note))
Representable(r) == Faults(r) = {}

AllFaults == {"payee_semicolon", "payee_line_end", "payee_looks_like_code", "code_paren", "code_line_end",
              "note_line_end", "note_looks_like_key_value", "note_looks_like_tags"}

\* ---------------------------------------------------------------- catalogue
Payees == {"Grocery Shop", "給料 振込", "A&B Co. #12", "Shop; rm -rf", "Evil\n    Assets:Evil  1000 USD", "Evil\r\nnext", "ACME Store\rZurich", "(123) Shop", "* Shop", "!Shop"}
Codes == {"~", "123", "12)3", "a(b", "1\n2", "1\r2"}
Notes == {"", "memo text", "x ; y", "Ref: 12345", ":tag1:tag2:", "line1\nline2", "old\rmac", "time 12:30"}
\* amount as printed by the bank, with the value it denotes: [txt, m (mantissa digits), neg, s]
Amounts == {[txt |-> "10.00", m |-> "1000", neg |-> FALSE, s |-> 2], [txt |-> "-1,234.50", m |-> "123450", neg |-> TRUE, s |-> 2],
            [txt |-> "$15.00", m |-> "1500", neg |-> FALSE, s |-> 2], [txt |-> "-$1.46", m |-> "146", neg |-> TRUE, s |-> 2],
            [txt |-> "0.05", m |-> "5", neg |-> FALSE, s |-> 2], [txt |-> "-0.5", m |-> "5", neg |-> TRUE, s |-> 1],
            [txt |-> "5", m |-> "5", neg |-> FALSE, s |-> 0], [txt |-> "1000000", m |-> "1000000", neg |-> FALSE, s |-> 0],
            [txt |-> "12.3456", m |-> "123456", neg |-> FALSE, s |-> 4],
            \* more decimals than any configured precision: padding never removes or rounds digits
            [txt |-> "0.00000001", m |-> "1", neg |-> FALSE, s |-> 8], [txt |-> "0.123456789", m |-> "123456789", neg |-> FALSE, s |-> 9],
            [txt |-> "-1.000000000001", m |-> "1000000000001", neg |-> TRUE, s |-> 12],
            [txt |-> "2000.00849834282314948585", m |-> "200000849834282314948585", neg |-> FALSE, s |-> 20]}
Precisions == {-1, 0, 2, 4}      \* configured precision of the commodity (-1 = none)
\* the configured account: what is printed must read back whatever its width (the layout keeps two blanks after it)
Accounts == {"Assets:Src", "Expenses:Education:University:Tuition:Fee", "負債:クレジットカード:オカネカード:リボ払い専用"}

\* the catalogue is not vacuous: every conjunct is violated by some text and satisfied by some text
ASSUME \A f \in AllFaults : \E p \in Payees, c \in Codes, n \in Notes : f \in Faults([payee |-> p, code |-> c, note |-> n])
ASSUME \E p \in Payees, c \in Codes, n \in Notes : c # "~" /\ n # "" /\ Representable([payee |-> p, code |-> c, note |-> n])

VARIABLE r
Init == \E p \in Payees, c \in Codes, n \in Notes, a \in Amounts, pr \in Precisions, ac \in Accounts :
          /\ (ac # "Assets:Src" => c = "~" /\ n \in {"", "memo text"} /\ p \in {"Grocery Shop", "給料 振込"})
          /\ r = [payee |-> p, code |-> c, note |-> n, amount |-> a, precision |-> pr, account |-> ac]
Next == UNCHANGED r
Spec == Init /\ [][Next]_r
=============================================================================
