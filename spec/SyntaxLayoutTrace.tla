------------------------- MODULE SyntaxLayoutTrace -------------------------
(***************************************************************************)
(* C19, binding B: the lines `okane format` really printed, abstracted by  *)
(* the harness into layout observations (indent, account width, gap,       *)
(* end of the number, position of "="), are checked here against the same  *)
(* predicates that Syntax.tla proves of its canonical layout.  Equality    *)
(* with Canon is not demanded: any layout satisfying the rules passes.     *)
(***************************************************************************)
EXTENDS Syntax, Json, IOUtils

Obs == ndJsonDeserialize(IOEnv.TRACE)
VARIABLE l
Init == l = 1
Next == l <= Len(Obs) /\ l' = l + 1
Spec == Init /\ [][Next]_l

OneBlankLineBetweenEntries(o) ==
  o.kind = "file" => /\ ~o.doubleBlank /\ ~o.leadingBlank
                     /\ o.blanks \in {o.entries - 1, o.entries}
\* every posting line of the output was found where the tree says it is
Matched(o) == o.kind # "unmatched"

Failed(o) == (IF Indent4(o) THEN {} ELSE {"Indent4"})
        \cup (IF Gap2(o) THEN {} ELSE {"Gap2"})
        \cup (IF Column52(o) THEN {} ELSE {"Column52"})
        \cup (IF AssertOnlyAligned(o) THEN {} ELSE {"AssertOnlyAligned"})
        \cup (IF OneBlankLineBetweenEntries(o) THEN {} ELSE {"OneBlankLineBetweenEntries"})
        \cup (IF Matched(o) THEN {} ELSE {"Matched"})

\* never false: every failing observation is printed, the driver turns them into violations
Report == (l <= Len(Obs) /\ Failed(Obs[l]) # {}) => PrintT(<<"LAYOUT-VIOLATION", l, Failed(Obs[l])>>)
AllConsumed == TLCGet("stats").diameter - 1 = Len(Obs)
=============================================================================
