----------------------------- MODULE LedgerTrace -----------------------------
(***************************************************************************)
(* Trace specification over Ledger.tla (binding B).                        *)
(*                                                                         *)
(* The trace is an ndjson file of events recorded from the real code built *)
(* with --cfg okane_verif (core/src/verif.rs), one per specification       *)
(* action, each joined by the harness with the piece of input the action   *)
(* consumed.  Every event must be explained by the corresponding action of *)
(* Ledger.tla AND the fields the code logged after its state change must   *)
(* equal the specification's next state.  Runs are separated by "reset".   *)
(***************************************************************************)
EXTENDS Ledger, Json, IOUtils, TLCExt

Rec == ndJsonDeserialize(IOEnv.TRACE)

VARIABLE l          \* position in the trace
tvars == <<vars, l>>

Ev == Rec[l]
IsEvent(e) == l <= Len(Rec) /\ Ev.ev = e /\ l' = l + 1

\* ---- JSON -> specification values
ToD(x) == D(x.m, x.s)
\* the abstract input uses the shape TLC itself emits: [c, v: [m, s]]
ToQ(q) == IF q.c = "~" THEN NoQ ELSE [c |-> q.c, v |-> ToD(q.v)]
ToEx(x) == [k |-> x.k, c |-> x.c, v |-> ToD(x.v)]
ToPost(p) == [acct |-> p.acct, kind |-> p.kind, q |-> ToQ(p.q), cost |-> ToEx(p.cost), lot |-> ToEx(p.lot), asrt |-> ToQ(p.asrt)]
ToSeq(s) == [i \in 1..Len(s) |-> s[i]]
ToEntry(e) == IF e.k = "acct" THEN [k |-> "acct", name |-> e.name, aliases |-> ToSeq(e.aliases)]
              ELSE [k |-> "cmdt", name |-> e.name, aliases |-> ToSeq(e.aliases), prec |-> e.prec]
\* logged amounts are sequences of [c, m, s]
ToAmt(s) == [c \in {s[i].c : i \in 1..Len(s)} |-> ToD(s[CHOOSE i \in 1..Len(s) : s[i].c = c])]
SameAmt(a, s) == Strip(a) = Strip(ToAmt(s))          \* numeric, zero entries ignored
KeepsZeros(a, s) == DOMAIN a = DOMAIN ToAmt(s)        \* and the same explicit zero entries

LastPost == cur'.posts[Len(cur'.posts)]

\* price events are unordered pairs
SamePrice(p, j) == \/ /\ p.xc = j.x.c /\ p.xv = ToD(j.x) /\ p.yc = j.y.c /\ p.yv = ToD(j.y)
                   \/ /\ p.xc = j.y.c /\ p.xv = ToD(j.y) /\ p.yc = j.x.c /\ p.yv = ToD(j.x)

TDecl == /\ IsEvent("decl")
         /\ LET e == ToEntry(Ev.e) IN DeclAccount(e) \/ DeclCommodity(e)
         /\ status'.s = "run"

TTxn == IsEvent("txn") /\ BeginTxn(Ev.date)

TPost == /\ IsEvent("post")
         /\ Post(ToPost(Ev.p))
         /\ status'.s = "run"
         /\ pi = Ev.i
         /\ LastPost.acct = Ev.acct                                \* canonical account
         /\ LastPost.kind = Ev.kind
         /\ SameAmt(LastPost.amt, Ev.amt)                          \* evaluated amount
         /\ SameAmt(LastPost.bv, Ev.bv)                            \* value inside the transaction
         /\ BalOf(bal', Ev.acct) = Strip(ToAmt(Ev.bal_after))      \* the account's balance after the posting
         /\ cur'.res = ToAmt(Ev.residual)                          \* running residual, zero entries retained
         /\ IF ~Ev.hasprice THEN prices' = prices
            ELSE \/ (Len(prices') = Len(prices) + 1 /\ SamePrice(prices'[Len(prices')], Ev.price))
                 \/ (prices' = prices /\ ToD(Ev.price.x).m = 0)    \* zero quantity: no rate derivable

TCommit ==
  /\ IsEvent("commit")
  /\ CASE Ev.decision = "deduce" ->
            /\ CommitDeduce /\ status'.s = "run"
            /\ cur.unfilled = Ev.i
            /\ LET t == reg'[Len(reg')] IN
               /\ t.posts[Ev.i].acct = Ev.acct
               /\ SameAmt(t.posts[Ev.i].amt, Ev.deduced)
               /\ BalOf(bal', Ev.acct) = Strip(ToAmt(Ev.bal_after))
       [] Ev.decision = "balanced" ->
            /\ CommitBalanced
            /\ Rounded = ToAmt(Ev.rounded)
       [] Ev.decision = "implied" ->
            /\ CommitImplied
            /\ Rounded = ToAmt(Ev.rounded)
            /\ SamePrice(prices'[Len(prices')], Ev.price)

\* a rejection is explained by the action that consumes the offending piece of input
TReject ==
  /\ IsEvent("reject")
  /\ CASE Ev.stage = "decl" -> LET e == ToEntry(Ev.e) IN DeclAccount(e) \/ DeclCommodity(e)
       [] Ev.stage = "post" -> Post(ToPost(Ev.p))
       [] Ev.stage = "commit" -> CommitDeduce \/ RejectPair \/ RejectUnbalanced
  /\ status'.s = "rej"
  /\ LET K == status'.kinds IN
     \/ Ev.kind = "UnbalancedPostings" /\ K \cap {"unbalanced", "pair_not_accepted"} # {}
     \/ Ev.kind = "BalanceAssertionFailure" /\ K = {"assertion"}
     \/ Ev.kind = "UndeduciblePostingAmount" /\ K = {"undeducible"}
     \/ Ev.kind = "BalanceFailure" /\ K = {"multi_commodity_assign"}
     \/ Ev.kind = "InvalidAccount" /\ K = {"invalid_account"}
     \/ Ev.kind = "InvalidCommodity" /\ K = {"invalid_commodity"}
     \/ Ev.kind = "ZeroExchangeRate" /\ "zero_rate" \in K
     \/ Ev.kind = "ZeroAmountWithExchange" /\ "zero_amount_with_exchange" \in K
     \/ Ev.kind = "ExchangeWithAmountCommodity" /\ "same_commodity" \in K
     \/ Ev.kind \in {"EvalFailure", "ComplexPostingAmount"} /\ K \cap {"amount_required", "rate_not_amount"} # {}

TDone == IsEvent("done") /\ Finish

\* next recorded run: everything back to the initial state
TReset == /\ IsEvent("reset")
          /\ status.s # "run"
          /\ input' = <<>> /\ ei' = 0 /\ pi' = 0
          /\ acct' = EmptyMap /\ cmdt' = EmptyMap /\ prec' = EmptyMap /\ bal' = EmptyMap
          /\ cur' = NoCur /\ reg' = <<>> /\ prices' = <<>>
          /\ ghost' = [asserts |-> <<>>, assigns |-> <<>>, lenient |-> {}, flat |-> 0, deferred |-> FALSE]
          /\ status' = [s |-> "run"]

TraceInit == Init /\ l = 1
TraceNext == TDecl \/ TTxn \/ TPost \/ TCommit \/ TReject \/ TDone \/ TReset
TraceSpec == TraceInit /\ [][TraceNext]_tvars

\* one state per consumed event plus the initial state
TraceAccepted ==
  LET d == TLCGet("stats").diameter IN
  IF d - 1 = Len(Rec) THEN TRUE
  ELSE Print(<<"TRACE-REJECTED at event", d, IF d <= Len(Rec) THEN Rec[d] ELSE "end">>, FALSE)
=============================================================================
