-------------------------- MODULE ImportVisecaCursor --------------------------
(***************************************************************************)
(* The cursor discipline of the Viseca statement reader: the control       *)
(* skeleton of ImportViseca.tla - the same actions, the same look-ahead,   *)
(* the same line counter - with a line reduced to its kind (the entry      *)
(* shapes Ep / Es / Ef stand for: no spent amount, spent in the card's     *)
(* currency, spent in a foreign currency) and without the record under     *)
(* construction.  Two tools use it:                                        *)
(*  - TLC checks that ImportViseca.tla refines it (every step of the full  *)
(*    machine is a step of this one under the projection of                *)
(*    MCImportViseca.tla, and IndInv holds in every reachable state);      *)
(*  - Apalache proves IndInv inductive for statements of any content       *)
(*    (apalache/ImportVisecaInd.tla), so CountIsCursor and "the line about *)
(*    to be consumed exists" do not depend on the five-line bound of TLC.  *)
(* The type annotations are Apalache's; for TLC they are comments.         *)
(***************************************************************************)
EXTENDS Integers, Sequences

VARIABLES
  \* @type: Seq(Str);
  lines,
  \* @type: Int;
  pos,
  \* @type: Bool;
  peeked,
  \* @type: Int;
  count,
  \* @type: Str;
  pc,
  \* @type: Str;
  ek

Kinds == {"Ep", "Es", "Ef", "C", "X", "F", "G", "A", "J", "D", "B"}
PCs == {"entry", "block", "category", "exchange", "fee", "readfee", "air", "airread", "ok", "err"}
IsE(k) == k \in {"Ep", "Es", "Ef"}
StartsWithDigit(k) == IsE(k) \/ k = "D"
Spent(k) == k \in {"Es", "Ef"}
Foreign(k) == k = "Ef"
Done == pc \in {"ok", "err"}
AtEof(p) == p >= Len(lines)

Got == IF peeked THEN (IF pos > Len(lines) THEN 0 ELSE pos) ELSE (IF AtEof(pos) THEN 0 ELSE pos + 1)
ReadLine == /\ count' = count + 1
            /\ peeked' = FALSE
            /\ pos' = IF peeked THEN pos ELSE (IF AtEof(pos) THEN pos ELSE pos + 1)
Peek == /\ count' = count
        /\ peeked' = TRUE
        /\ pos' = IF peeked THEN pos ELSE (IF pos > Len(lines) THEN pos ELSE pos + 1)

ReadEntry == /\ pc = "entry" /\ ReadLine
             /\ IF Got = 0 THEN pc' = "ok" /\ UNCHANGED ek
                ELSE IF ~IsE(lines[Got]) THEN pc' = "err" /\ UNCHANGED ek
                ELSE pc' = "block" /\ ek' = lines[Got]
             /\ UNCHANGED lines
DecideBlock == /\ pc = "block" /\ Peek
               /\ pc' = IF Got = 0 \/ StartsWithDigit(lines[Got]) THEN "entry" ELSE "category"
               /\ UNCHANGED <<lines, ek>>
ReadCategory == /\ pc = "category" /\ ReadLine
                /\ pc' = IF Foreign(ek) THEN "exchange" ELSE IF Spent(ek) THEN "fee" ELSE "air"
                /\ UNCHANGED <<lines, ek>>
ReadExchange == /\ pc = "exchange" /\ ReadLine
                /\ pc' = IF Got = 0 \/ lines[Got] # "X" THEN "err" ELSE "fee"
                /\ UNCHANGED <<lines, ek>>
DecideFee == /\ pc = "fee" /\ Peek
             /\ pc' = IF Got # 0 /\ lines[Got] \in {"F", "G"} THEN "readfee" ELSE "air"
             /\ UNCHANGED <<lines, ek>>
ReadFee == /\ pc = "readfee" /\ ReadLine
           /\ pc' = IF lines[Got] = "F" THEN "air" ELSE "err"
           /\ UNCHANGED <<lines, ek>>
SkipAir == /\ pc = "air" /\ Peek
           /\ pc' = IF Got # 0 /\ lines[Got] = "A" THEN "airread" ELSE "entry"
           /\ UNCHANGED <<lines, ek>>
ReadAir == /\ pc = "airread" /\ ReadLine /\ pc' = "air" /\ UNCHANGED <<lines, ek>>
Stutter == Done /\ UNCHANGED <<lines, pos, peeked, count, pc, ek>>
Next == ReadEntry \/ DecideBlock \/ ReadCategory \/ ReadExchange \/ DecideFee \/ ReadFee \/ SkipAir \/ ReadAir \/ Stutter

\* ---------------------------------------------------------------- the inductive invariant
Waiting == peeked /\ pos >= 1 /\ pos <= Len(lines)          \* a real line has been peeked and not consumed
IndInv ==
  /\ \A i \in DOMAIN lines : lines[i] \in Kinds
  /\ pos >= 0 /\ pos <= Len(lines) + 1 /\ count >= 0 /\ count <= Len(lines) + 1
  /\ pc \in PCs /\ ek \in {"~", "Ep", "Es", "Ef"}
  /\ (peeked => pos >= 1)
  /\ (Done \/ count = (IF peeked THEN pos - 1 ELSE pos))                      \* CountIsCursor
  /\ (~peeked /\ ~Done => pos <= Len(lines))
  /\ (pc \in {"category", "readfee", "airread"} => Waiting)                  \* the line about to be consumed exists
  /\ (pc = "readfee" => lines[pos] \in {"F", "G"})
  /\ (pc = "airread" => lines[pos] = "A")
  /\ (pc = "category" => ~StartsWithDigit(lines[pos]))
  /\ (pc \in {"block", "category", "exchange", "fee", "readfee", "air", "airread"} => ek # "~")
  /\ (pc = "exchange" => ek = "Ef") /\ (pc \in {"fee", "readfee"} => Spent(ek))
  /\ (pc \in {"block", "exchange"} => ~peeked)

=============================================================================
