-------------------------- MODULE ImportVisecaTrace --------------------------
(***************************************************************************)
(* Trace specification over ImportViseca.tla (binding B for the Viseca     *)
(* reader, C15).                                                           *)
(*                                                                         *)
(* The trace is an ndjson file of the events that the line reader of       *)
(* cli/src/import/viseca/parser.rs itself emits under --cfg okane_verif    *)
(* while it imports the statements of TLC-generated behaviours:            *)
(*   read   LineReader::read_line returned  (count = lines consumed, eof,  *)
(*          cached = the line had been peeked)                             *)
(*   peek   LineReader::peek returned       (eof, cached)                  *)
(*   entry  parse_entry hands out a record  (its line, category, whether   *)
(*          it has an exchange rate / a fee)                               *)
(*   end    import returned (ok / err)      - written by the harness       *)
(* Each read / peek event must be the ReadLine / Peek of exactly one       *)
(* action of ImportViseca.tla enabled in the state reached, with the       *)
(* logged counter, end-of-input flag and look-ahead flag equal to the      *)
(* specification's; an entry event must hand out exactly the record the    *)
(* machine appended last, before the next read; `end ok` needs pc = "ok"   *)
(* with every record handed out, `end err` needs pc = "err".  Runs are     *)
(* separated by "stmt" events carrying the abstract lines.  The invariants *)
(* of ImportViseca.tla are evaluated in every state of every run.          *)
(***************************************************************************)
EXTENDS ImportViseca, Json, IOUtils, TLCExt

Rec == ndJsonDeserialize(IOEnv.TRACE)

VARIABLES l,         \* position in the trace
          seen       \* records handed out so far in this run
tvars == <<vars, l, seen>>

Ev == Rec[l]
IsEvent(e) == l <= Len(Rec) /\ Ev.ev = e /\ l' = l + 1

TStmt == /\ IsEvent("stmt")
         /\ Done
         /\ lines' = Ev.lines
         /\ pos' = 0 /\ peeked' = FALSE /\ count' = 0 /\ pc' = "entry" /\ cur' = NoRec /\ out' = <<>> /\ reads' = 0
         /\ seen' = 0

TRead == /\ IsEvent("read")
         /\ seen = Len(out)                         \* nothing is read while a finished record waits to be handed out
         /\ Ev.cached = peeked
         /\ Ev.eof = (Got = 0)
         /\ (ReadEntry \/ ReadCategory \/ ReadExchange \/ ReadFee \/ ReadAir)
         /\ count' = Ev.count
         /\ UNCHANGED seen

TPeek == /\ IsEvent("peek")
         /\ seen = Len(out)
         /\ Ev.cached = peeked
         /\ Ev.eof = (PeekGot = 0)
         /\ Ev.count = count
         /\ (DecideBlock \/ DecideFee \/ SkipAir)
         /\ UNCHANGED seen

\* looking again at a line that is already in the look-ahead changes nothing in the reader: an implementation may do it as
\* often as it likes (grain of atomicity: an implementation step without a counterpart in the specification is a stuttering step)
TPeekAgain == /\ IsEvent("peek")
              /\ Ev.cached /\ peeked
              /\ Ev.eof = (PeekGot = 0) /\ Ev.count = count
              /\ UNCHANGED <<vars, seen>>

TEntry == /\ IsEvent("entry")
          /\ Len(out) = seen + 1
          /\ LET r == out[Len(out)] IN
             /\ r.line = Ev.line
             /\ Ev.exchange = (r.x.k = "X")
             /\ Ev.fee = (r.f.k = "F")
             /\ (r.line < Len(lines) /\ lines[r.line + 1].k = "C" /\ r.cat # NoneS) => Ev.category = r.cat
             /\ (r.cat = NoneS) => Ev.category = ""
          /\ seen' = seen + 1
          /\ UNCHANGED vars

TEnd == /\ IsEvent("end")
        /\ IF Ev.result = "ok" THEN pc = "ok" /\ seen = Len(out) ELSE pc = "err"
        /\ UNCHANGED <<vars, seen>>

TraceInit == /\ lines = <<>> /\ pos = 0 /\ peeked = FALSE /\ count = 0 /\ pc = "ok" /\ cur = NoRec /\ out = <<>> /\ reads = 0
             /\ l = 1 /\ seen = 0
TraceNext == TStmt \/ TRead \/ TPeek \/ TPeekAgain \/ TEntry \/ TEnd
TraceSpec == TraceInit /\ [][TraceNext]_tvars

TraceAccepted ==
  LET d == TLCGet("stats").diameter IN
  IF d - 1 = Len(Rec) THEN TRUE
  ELSE Print(<<"TRACE-REJECTED at event", d, IF d <= Len(Rec) THEN Rec[d] ELSE "end">>, FALSE)
=============================================================================
