------------------------------- MODULE Syntax -------------------------------
(***************************************************************************)
(* The ledger file format: abstract syntax, the documented grammar read as *)
(* a generator of concrete text (Render, parameterised by a style that     *)
(* picks one alternative wherever doc/syntax.md allows variation), and the *)
(* formatter's canonical text (Canon) with its column arithmetic.          *)
(*                                                                         *)
(* Abstract entries have exactly the fields C05 lists; "~" stands for an   *)
(* absent optional.  Text that can contain wide characters is carried with *)
(* its display width: [s |-> string, w |-> columns].                       *)
(***************************************************************************)
EXTENDS Integers, Sequences, TLC

None == [t |-> "none"]      \* absent record-valued optional (amount, cost, balance, lot price, dates, tag value)
NoneS == "~"               \* absent string-valued optional (code, lot note)

\* ---------------------------------------------------------------- strings
RECURSIVE Rep(_, _)
Rep(s, n) == IF n <= 0 THEN "" ELSE s \o Rep(s, n - 1)
Spaces(n) == Rep(" ", n)
RECURSIVE Cat(_)
Cat(ss) == IF ss = <<>> THEN "" ELSE ss[1] \o Cat(Tail(ss))
Max(a, b) == IF a >= b THEN a ELSE b
\* display width: East-Asian wide characters (the ones the catalogues use) take two columns
WideChars == {"口", "円", "米", "ド", "ル", "資", "産", "銀", "行", "座"}
RECURSIVE StrWidth(_)
StrWidth(str) == IF str = "" THEN 0
                 ELSE (IF SubSeq(str, 1, 1) \in WideChars THEN 2 ELSE 1) + StrWidth(SubSeq(str, 2, Len(str)))

\* ---------------------------------------------------------------- abstract syntax
\* number: [txt, m (digits, no leading zero), neg, s (decimal places), f ("none"|"plain"|"comma")]; txt is canonical
\* amount: [n, c]                      value: [t |-> "amt", a] | [t |-> "paren", e]
\* expr:   value | [t |-> "neg", e |-> value] | [t |-> "bin", op, l, r]
\* exchange: [k |-> "rate"|"total", v |-> value]
\* lot: [price, date, note]            posting: [clear, account: [s, w], amount, cost, lot, balance, metadata]
\* metadata: [k |-> "comment", v] | [k |-> "tags", v |-> Seq] | [k |-> "kv", key, value |-> [k |-> "text"|"expr", v]]
\* entries: txn, comment, apply_tag, end_apply_tag, include, account, commodity
Date(y, m, d) == [y |-> y, m |-> m, d |-> d]
NoLot == [price |-> None, date |-> None, note |-> NoneS]

\* ---------------------------------------------------------------- styles
\* every field picks one alternative the grammar allows
Style == [sep: {"  ", "\t", "   ", " \t"},      \* between account and posting value
          indent: {"    ", " ", "\t", "  "},    \* before a posting / sub-directive / metadata line
          eq: {" = ", "=", "  =  "},            \* balance assertion
          at: {" @ ", "@", " @"},               \* cost (the second @ of @@ follows the first)
          inbr: {"", " "},                      \* inside { } and [ ]
          prelot: {" ", "", "  "},              \* before lot parts
          amtsp: {" ", "", "  "},               \* between number and commodity
          op: {"spaced", "tight"},              \* operators inside parentheses
          cprefix: {";", "#", "%", "|", "*"},   \* top-level comment prefix
          datesep: {"/", "-"},
          nl: {"\n", "\r\n"},
          blank: {"one", "none", "two", "spaces"}, \* lines between entries
          eof: {"nl", "eof"},                   \* does the last line end with a newline
          trail: {"", "  "},                    \* trailing blanks at end of lines
          meta1: {"inline", "nextline"},        \* first metadata of a header / posting on the same line or below
          metasp: {" ", ""}]                    \* after the ";" of a metadata line
Base == [sep |-> "  ", indent |-> "    ", eq |-> " = ", at |-> " @ ", inbr |-> "", prelot |-> " ", amtsp |-> " ", op |-> "spaced",
         cprefix |-> ";", datesep |-> "/", nl |-> "\n", blank |-> "one", eof |-> "nl", trail |-> "", meta1 |-> "nextline", metasp |-> " "]

\* ---------------------------------------------------------------- expressions
RAmt(a, st) == a.n.txt \o (IF a.c = "" THEN "" ELSE st.amtsp \o a.c)
RECURSIVE RExpr(_, _)
RValue(v, st) == IF v.t = "amt" THEN RAmt(v.a, st) ELSE "(" \o st.inbr \o RExpr(v.e, st) \o st.inbr \o ")"
\* a binary minus straight after a bare number: `1-2` is in the grammar (sp* may be empty)
OpText(op, st) == IF st.op = "spaced" THEN " " \o op \o " " ELSE op
RExpr(e, st) ==
  CASE e.t = "amt" -> RAmt(e.a, st)
    [] e.t = "paren" -> "(" \o st.inbr \o RExpr(e.e, st) \o st.inbr \o ")"
    [] e.t = "neg" -> "-" \o RExpr(e.e, st)
    [] e.t = "bin" -> RExpr(e.l, st) \o OpText(e.op, st) \o RExpr(e.r, st)

\* ---------------------------------------------------------------- dates, clear marks
RDate(d, sep) == d.y \o sep \o d.m \o sep \o d.d
ClearText(c) == IF c = "" THEN "" ELSE c \o " "

\* ---------------------------------------------------------------- metadata
RMetaBody(m) ==
  CASE m.k = "comment" -> m.v
    [] m.k = "tags" -> ":" \o Cat([i \in 1..Len(m.v) |-> m.v[i] \o ":"])
    [] m.k = "kv" -> m.key \o (IF m.value.k = "expr" THEN ":: " ELSE ": ") \o m.value.v
RMeta(m, st) == ";" \o st.metasp \o RMetaBody(m)

\* `last` = this is the very last line of the file and the style says it ends at end of file
EndOfLine(st, last) == IF last /\ st.eof = "eof" THEN "" ELSE st.nl
\* a block of metadata after a header or a posting line: first one inline or on its own line
\* returns the text from the end of the line's own content up to and including the last newline of the block
\* (`last` = this is the very last line of the file and style says no final newline)
\* metadata lines, each on its own line; the final newline obeys `last`
RECURSIVE RMetaLinesLast(_, _, _, _)
RMetaLinesLast(ms, i, st, last) ==
  IF i > Len(ms) THEN ""
  ELSE st.indent \o RMeta(ms[i], st) \o st.trail
       \o (IF i = Len(ms) THEN EndOfLine(st, last) ELSE st.nl) \o RMetaLinesLast(ms, i + 1, st, last)

RMetaBlock(ms, st, last) ==
  IF ms = <<>> THEN st.trail \o EndOfLine(st, last)
  ELSE IF st.meta1 = "inline"
       THEN " " \o RMeta(ms[1], st) \o (IF Len(ms) = 1 THEN st.trail \o EndOfLine(st, last)
                                        ELSE st.trail \o st.nl \o RMetaLinesLast(ms, 2, st, last))
       ELSE st.trail \o st.nl \o RMetaLinesLast(ms, 1, st, last)
\* ---------------------------------------------------------------- postings
RExchange(x, st) == IF x.k = "total" THEN "{{" \o st.inbr \o RValue(x.v, st) \o st.inbr \o "}}" ELSE "{" \o st.inbr \o RValue(x.v, st) \o st.inbr \o "}"
RLot(l, st) ==
  (IF l.price = None THEN "" ELSE st.prelot \o RExchange(l.price, st))
  \o (IF l.date = None THEN "" ELSE st.prelot \o "[" \o st.inbr \o RDate(l.date, st.datesep) \o st.inbr \o "]")
  \o (IF l.note = NoneS THEN "" ELSE st.prelot \o "(" \o l.note \o ")")
RCost(c, st) == IF c = None THEN ""
                ELSE IF c.k = "total" THEN (IF st.at = "@" THEN "@@" ELSE IF st.at = " @" THEN " @@" ELSE " @@ ") \o RValue(c.v, st)
                ELSE st.at \o RValue(c.v, st)
RBalance(b, st) == IF b = None THEN "" ELSE st.eq \o RValue(b, st)
HasValue(p) == p.amount # None \/ p.balance # None
\* with only an assertion the "=" follows the separator directly
RPostingValue(p, st) ==
  IF p.amount = None THEN (IF st.eq = "=" THEN "=" ELSE "= ") \o RValue(p.balance, st)
  ELSE RValue(p.amount, st) \o RLot(p.lot, st) \o RCost(p.cost, st) \o RBalance(p.balance, st)
RPosting(p, st, last) ==
  st.indent \o ClearText(p.clear) \o p.account.s
  \o (IF HasValue(p) THEN st.sep \o RPostingValue(p, st) ELSE "")
  \o RMetaBlock(p.metadata, st, last)

\* ---------------------------------------------------------------- entries
RECURSIVE RPostings(_, _, _, _)
RPostings(ps, i, st, last) == IF i > Len(ps) THEN "" ELSE RPosting(ps[i], st, last /\ i = Len(ps)) \o RPostings(ps, i + 1, st, last)

RHeaderNote(t) == ClearText(t.clear) \o (IF t.code = NoneS THEN "" ELSE "(" \o t.code \o ") ") \o t.payee
RTxn(t, st, last) ==
  RDate(t.date, st.datesep) \o (IF t.edate = None THEN "" ELSE "=" \o RDate(t.edate, st.datesep))
  \o (IF RHeaderNote(t) = "" THEN "" ELSE " " \o RHeaderNote(t))
  \o RMetaBlock(t.metadata, st, last /\ t.posts = <<>>)
  \o RPostings(t.posts, 1, st, last)

RECURSIVE RLines(_, _, _, _, _)
\* lines of a multi-line text, each with a prefix
RLines(lines, i, prefix, st, last) ==
  IF i > Len(lines) THEN ""
  ELSE prefix \o lines[i] \o st.trail \o (IF i = Len(lines) THEN EndOfLine(st, last) ELSE st.nl) \o RLines(lines, i + 1, prefix, st, last)

RDetail(d, st, last) ==
  CASE d.k = "comment" -> RLines(d.v, 1, st.indent \o st.cprefix \o st.metasp, st, last)
    [] d.k = "note" -> RLines(d.v, 1, st.indent \o "note ", st, last)
    \* the documented grammar has no trailing blanks after an alias or a format
    [] d.k = "alias" -> st.indent \o "alias " \o d.v \o EndOfLine(st, last)
    [] d.k = "format" -> st.indent \o "format " \o RAmt(d.v, [st EXCEPT !.amtsp = " "]) \o EndOfLine(st, last)
RECURSIVE RDetails(_, _, _, _)
RDetails(ds, i, st, last) == IF i > Len(ds) THEN "" ELSE RDetail(ds[i], st, last /\ i = Len(ds)) \o RDetails(ds, i + 1, st, last)

REntry(e, st, last) ==
  CASE e.k = "txn" -> RTxn(e, st, last)
    [] e.k = "comment" -> RLines(e.v, 1, st.cprefix, st, last)
    [] e.k = "apply_tag" -> "apply tag " \o e.key \o (IF e.value = None THEN "" ELSE (IF e.value.k = "expr" THEN ":: " ELSE ": ") \o e.value.v)
                           \o st.trail \o EndOfLine(st, last)
    [] e.k = "end_apply_tag" -> "end apply tag" \o st.trail \o EndOfLine(st, last)
    [] e.k = "include" -> "include " \o e.path \o st.trail \o EndOfLine(st, last)
    [] e.k = "account" -> "account " \o e.name \o st.trail \o EndOfLine(st, last /\ e.details = <<>>) \o RDetails(e.details, 1, st, last)
    [] e.k = "commodity" -> "commodity " \o e.name \o st.trail \o EndOfLine(st, last /\ e.details = <<>>) \o RDetails(e.details, 1, st, last)

\* blank lines between entries; two comments are always separated (otherwise they are one comment)
Between(a, b, st) ==
  LET kind == IF st.blank = "none" /\ (a.k = "comment" /\ b.k = "comment") THEN "one" ELSE st.blank
  IN CASE kind = "none" -> "" [] kind = "one" -> st.nl [] kind = "two" -> st.nl \o st.nl [] kind = "spaces" -> "  " \o st.nl
RECURSIVE RFile(_, _, _)
RFile(es, i, st) ==
  IF i > Len(es) THEN ""
  ELSE REntry(es[i], st, i = Len(es)) \o (IF i < Len(es) THEN Between(es[i], es[i + 1], st) ELSE "") \o RFile(es, i + 1, st)
Render(es, st) == RFile(es, 1, st)

\* ---------------------------------------------------------------- the canonical text (formatter) and its layout
CanonStyle == Base
\* offset of the end of the first commodity-bearing number of a value, as printed canonically
\* ("Partial" until a commodity is met: a bare number does not anchor the column)
RECURSIVE AlignOf(_)
AlignOf(e) ==   \* [done |-> BOOLEAN, n |-> columns]
  CASE e.t = "amt" -> [done |-> e.a.c # "", n |-> Len(e.a.n.txt)]
    [] e.t = "paren" -> LET a == AlignOf(e.e) IN IF a.done THEN [done |-> TRUE, n |-> a.n + 1] ELSE [done |-> FALSE, n |-> a.n + 2]
    [] e.t = "neg" -> LET a == AlignOf(e.e) IN [a EXCEPT !.n = @ + 1]
    [] e.t = "bin" -> LET a == AlignOf(e.l) IN
                      IF a.done THEN a
                      ELSE LET b == AlignOf(e.r) IN [done |-> b.done, n |-> a.n + 3 + b.n]
NumEnd(v) == AlignOf(v).n

AccountWidth(p) == p.account.w + Len(ClearText(p.clear))
\* the rule: the number ends at column 52 whenever that leaves at least two spaces
Gap(w, numEnd) == IF w + numEnd + 2 <= 48 THEN 48 - w - numEnd ELSE 2
\* assertion only: "=" where it would fall after an amount in that commodity (number ending at 52,
\* then " commodity", then " ="), never closer than two spaces to the account
TrailOf(v) == StrWidth(RValue(v, CanonStyle)) - NumEnd(v)      \* columns, not characters: ` 円` is three columns wide
EqGap(w, trail) == IF w + 2 <= 49 + trail THEN 49 + trail - w ELSE 2

CPostingLine(p) ==
  "    " \o ClearText(p.clear) \o p.account.s
  \o (IF p.amount # None
      THEN Spaces(Gap(AccountWidth(p), NumEnd(p.amount))) \o RValue(p.amount, CanonStyle) \o RLot(p.lot, CanonStyle)
           \o RCost(p.cost, CanonStyle) \o RBalance(p.balance, CanonStyle)
      ELSE IF p.balance # None THEN Spaces(EqGap(AccountWidth(p), TrailOf(p.balance))) \o "= " \o RValue(p.balance, CanonStyle)
      ELSE "")

\* layout observation of one canonical posting line (what C19 talks about)
PostingLayout(p) ==
  [kind |-> "posting", indent |-> 4, w |-> AccountWidth(p),
   gap |-> IF p.amount # None THEN Gap(AccountWidth(p), NumEnd(p.amount))
           ELSE IF p.balance # None THEN EqGap(AccountWidth(p), TrailOf(p.balance)) ELSE 0,
   numEnd |-> IF p.amount # None /\ p.amount.t = "amt" /\ p.amount.a.c # "" THEN NumEnd(p.amount) ELSE -1,
   eqTrail |-> IF p.amount = None /\ p.balance # None /\ p.balance.t = "amt" /\ p.balance.a.c # "" THEN TrailOf(p.balance) ELSE -1,
   hasValue |-> HasValue(p)]

\* ---- C19 as predicates over a layout observation (shared with SyntaxLayoutTrace)
Indent4(o) == o.kind \in {"posting", "meta"} => o.indent = 4
Gap2(o) == (o.kind = "posting" /\ o.hasValue) => o.gap >= 2
Column52(o) == (o.kind = "posting" /\ o.numEnd >= 0 /\ o.w + o.numEnd + 2 <= 48) => 4 + o.w + o.gap + o.numEnd = 52
AssertOnlyAligned(o) == (o.kind = "posting" /\ o.eqTrail >= 0 /\ o.w + 2 <= 49 + o.eqTrail) => 4 + o.w + o.gap + 1 = 54 + o.eqTrail
LayoutOK(o) == Indent4(o) /\ Gap2(o) /\ Column52(o) /\ AssertOnlyAligned(o)
=============================================================================
