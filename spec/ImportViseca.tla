----------------------------- MODULE ImportViseca -----------------------------
(***************************************************************************)
(* C15 (Viseca part): how a card statement, a sequence of text lines, is   *)
(* cut into records and what each record becomes.                          *)
(*                                                                         *)
(* The statement is line based: an entry line (dates, payee, optionally    *)
(* the amount spent in its own currency, the billed amount, an optional    *)
(* trailing `-` for credits) may be followed by a block of detail lines:   *)
(* the category, then - only for an entry spent in a currency other than   *)
(* the card's - the exchange-rate line, then - only for an entry that      *)
(* shows a spent amount - an optional processing-fee line (or the credit   *)
(* of one), then any number of `Air-...:` lines.  An entry line begins      *)
(* with a digit; the block is present exactly when the line below the      *)
(* entry line does not.                                                    *)
(*                                                                         *)
(* The module states this twice.  (1) The reader of the code as a state    *)
(* machine: a cursor over the lines with a one-line look-ahead, one action *)
(* per read / peek decision of viseca::parser (ReadEntry, DecideBlock,     *)
(* ReadCategory, ReadExchange, DecideFee, ReadFee, SkipAir, Emit), with    *)
(* the line counter the code keeps.  (2) Records(lines): a recursive       *)
(* reading of the paragraph above that knows nothing of cursors or         *)
(* look-ahead.  TLC checks MachineMatchesGrammar on every line sequence    *)
(* within the bound: the machine ends in "ok" exactly when the lines are   *)
(* a sentence of the grammar, its records are the grammar's, one record    *)
(* per entry line, each remembering the line number of its own entry line, *)
(* and it always terminates having read every line at most once.           *)
(* ExpectedTxn gives the double-entry transaction of a record.             *)
(***************************************************************************)
EXTENDS Dec, Sequences, FiniteSets, TLC

NoneS == "~"
NoD == [m |-> 0, s |-> -1]
NoLine == [k |-> "~"]                     \* absent exchange / fee line of a record
Primary == "CHF"
Account == "Liabilities:Card"
Operator == "Card (fee)"
ChargeAccount == "Expenses:Commissions"

\* ---------------------------------------------------------------- lines
\* k: "E" entry, "C" category text, "X" exchange rate, "F" processing fee (or the credit of one), "G" a line that
\*    begins like a processing-fee line but is not one, "A" Air- tag, "J" other text (not starting with a digit),
\*    "D" other text starting with a digit, "B" blank line
\* E: [k, neg, cur (NoneS = no spent amount shown), ex (spent amount), amt (billed amount), day, eday, payee]
\* C: [k, t]   X: [k, rate, samt]   F: [k, credit, famt]
IsE(l) == l.k = "E"
StartsWithDigit(l) == l.k \in {"E", "D"}
\* a digit-initial line that is not an entry line is nothing the format knows
Foreign(e) == e.cur # NoneS /\ e.cur # Primary
Spent(e) == e.cur # NoneS

\* ---------------------------------------------------------------- (2) the grammar, read recursively
\* the block of an entry line at position i (its detail lines start at i + 1): [ok, rec, next]
AirRun(lines, j) == LET S == {n \in j..(Len(lines) + 1) : \A q \in j..(n - 1) : lines[q].k = "A"} IN
                    CHOOSE n \in S : \A n2 \in S : n2 <= n
RecordAt(lines, i) ==
  LET e == lines[i]
      base == [line |-> i, e |-> e, cat |-> NoneS, x |-> NoLine, f |-> NoLine] IN
  IF i = Len(lines) \/ StartsWithDigit(lines[i + 1]) THEN [ok |-> TRUE, rec |-> base, next |-> i + 1]
  ELSE
    LET cat == lines[i + 1]
        j1 == i + 2
        needX == Foreign(e)
        okX == ~needX \/ (j1 <= Len(lines) /\ lines[j1].k = "X")
        j2 == IF needX THEN j1 + 1 ELSE j1
        hasF == Spent(e) /\ okX /\ j2 <= Len(lines) /\ lines[j2].k = "F"
        badF == Spent(e) /\ okX /\ j2 <= Len(lines) /\ lines[j2].k = "G"
        j3 == IF hasF THEN j2 + 1 ELSE j2 IN
    IF ~okX \/ badF THEN [ok |-> FALSE, rec |-> base, next |-> j1]
    ELSE [ok |-> TRUE,
          rec |-> [line |-> i, e |-> e, cat |-> (IF cat.k = "C" THEN cat.t ELSE IF cat.k = "B" THEN "" ELSE cat.k),
                   x |-> (IF needX THEN lines[j1] ELSE NoLine), f |-> (IF hasF THEN lines[j2] ELSE NoLine)],
          next |-> AirRun(lines, j3)]
RECURSIVE RecordsFrom(_, _)
RecordsFrom(lines, i) ==
  IF i > Len(lines) THEN [ok |-> TRUE, recs |-> <<>>]
  ELSE IF ~IsE(lines[i]) THEN [ok |-> FALSE, recs |-> <<>>]
  ELSE LET r == RecordAt(lines, i) IN
       IF ~r.ok THEN [ok |-> FALSE, recs |-> <<>>]
       ELSE LET rest == RecordsFrom(lines, r.next) IN [ok |-> rest.ok, recs |-> <<r.rec>> \o rest.recs]
Records(lines) == RecordsFrom(lines, 1)
EntryLines(lines) == {i \in 1..Len(lines) : IsE(lines[i])}

\* ---------------------------------------------------------------- (1) the reader as a state machine
VARIABLES lines,      \* the statement (fixed)
          pos,        \* number of lines handed out by the underlying reader (read or peeked)
          peeked,     \* TRUE when line `pos` was peeked and not yet consumed
          count,      \* the code's line_count: lines consumed
          pc,         \* "entry" | "block" | "category" | "exchange" | "fee" | "readfee" | "air" | "ok" | "err"
          cur,        \* the record being assembled
          out,        \* records emitted
          reads       \* how often the underlying reader was asked for a line (termination / cost bound)
vars == <<lines, pos, peeked, count, pc, cur, out, reads>>

NoRec == [line |-> 0, e |-> NoLine, cat |-> NoneS, x |-> NoLine, f |-> NoLine]
\* LineReader::read_line: consume the peeked line or fetch the next one; at end of input nothing is there
\* (the code still counts the attempt)
AtEof(p) == p >= Len(lines)
\* the line a read_line returns (0 = end of input) and the reader state after it
ReadLine == /\ count' = count + 1
            /\ IF peeked THEN /\ peeked' = FALSE /\ pos' = pos /\ reads' = reads
               ELSE /\ peeked' = FALSE /\ pos' = (IF AtEof(pos) THEN pos ELSE pos + 1) /\ reads' = reads + 1
Got == IF peeked THEN (IF pos > Len(lines) THEN 0 ELSE pos)       \* a peek at end of input leaves pos = Len + 1
       ELSE (IF AtEof(pos) THEN 0 ELSE pos + 1)
\* LineReader::peek: fetch the next line without consuming it
Peek == /\ count' = count
        /\ IF peeked THEN UNCHANGED <<peeked, pos, reads>>
           ELSE /\ peeked' = TRUE /\ pos' = (IF pos > Len(lines) THEN pos ELSE pos + 1) /\ reads' = reads + 1
                \* peeked /\ pos = Len + 1 stands for "peeked the end of input"
PeekGot == IF peeked THEN (IF pos > Len(lines) THEN 0 ELSE pos) ELSE (IF AtEof(pos) THEN 0 ELSE pos + 1)

Init == /\ pos = 0 /\ peeked = FALSE /\ count = 0 /\ pc = "entry" /\ cur = NoRec /\ out = <<>> /\ reads = 0

ReadEntry ==
  /\ pc = "entry" /\ ReadLine
  /\ LET g == Got IN
     IF g = 0 THEN pc' = "ok" /\ UNCHANGED <<cur, out>>
     ELSE IF ~IsE(lines[g]) THEN pc' = "err" /\ UNCHANGED <<cur, out>>
     ELSE /\ cur' = [NoRec EXCEPT !.line = count + 1, !.e = lines[g]] /\ pc' = "block" /\ UNCHANGED out
  /\ UNCHANGED lines
DecideBlock ==
  /\ pc = "block" /\ Peek
  /\ LET g == PeekGot IN
     IF g = 0 \/ StartsWithDigit(lines[g]) THEN /\ out' = Append(out, cur) /\ pc' = "entry" /\ UNCHANGED cur
     ELSE pc' = "category" /\ UNCHANGED <<cur, out>>
  /\ UNCHANGED lines
ReadCategory ==
  /\ pc = "category" /\ ReadLine
  /\ LET g == Got IN
     /\ cur' = [cur EXCEPT !.cat = IF lines[g].k = "C" THEN lines[g].t ELSE IF lines[g].k = "B" THEN "" ELSE lines[g].k]
     /\ pc' = IF Foreign(cur.e) THEN "exchange" ELSE IF Spent(cur.e) THEN "fee" ELSE "air"
  /\ UNCHANGED <<lines, out>>
ReadExchange ==
  /\ pc = "exchange" /\ ReadLine
  /\ LET g == Got IN
     IF g = 0 \/ lines[g].k # "X" THEN pc' = "err" /\ UNCHANGED cur
     ELSE cur' = [cur EXCEPT !.x = lines[g]] /\ pc' = "fee"
  /\ UNCHANGED <<lines, out>>
DecideFee ==
  /\ pc = "fee" /\ Peek
  /\ LET g == PeekGot IN pc' = IF g # 0 /\ lines[g].k \in {"F", "G"} THEN "readfee" ELSE "air"
  /\ UNCHANGED <<lines, cur, out>>
ReadFee ==
  /\ pc = "readfee" /\ ReadLine
  /\ IF lines[Got].k = "F" THEN cur' = [cur EXCEPT !.f = lines[Got]] /\ pc' = "air"
     ELSE pc' = "err" /\ UNCHANGED cur
  /\ UNCHANGED <<lines, out>>
SkipAir ==
  /\ pc = "air" /\ Peek
  /\ LET g == PeekGot IN
     IF g # 0 /\ lines[g].k = "A" THEN pc' = "airread" /\ UNCHANGED <<cur, out>>
     ELSE /\ out' = Append(out, cur) /\ pc' = "entry" /\ UNCHANGED cur
  /\ UNCHANGED lines
ReadAir == /\ pc = "airread" /\ ReadLine /\ pc' = "air" /\ UNCHANGED <<lines, cur, out>>
Next == ReadEntry \/ DecideBlock \/ ReadCategory \/ ReadExchange \/ DecideFee \/ ReadFee \/ SkipAir \/ ReadAir
Done == pc \in {"ok", "err"}
Spec == Init /\ [][Next]_vars /\ WF_vars(Next)

\* ---------------------------------------------------------------- what TLC checks
IsPrefix(a, b) == Len(a) <= Len(b) /\ SubSeq(b, 1, Len(a)) = a
MachineMatchesGrammar ==
  LET g == Records(lines) IN
  /\ IsPrefix(out, IF g.ok THEN g.recs ELSE out)       \* while running: a prefix of the grammar's records
  /\ (pc = "ok" => g.ok /\ out = g.recs)
  /\ (pc = "err" => ~g.ok)
OnePerEntryLine == pc = "ok" => /\ Len(out) = Cardinality(EntryLines(lines))
                                /\ \A k \in 1..Len(out) : IsE(lines[out[k].line]) /\ lines[out[k].line] = out[k].e
                                /\ \A k \in 1..(Len(out) - 1) : out[k].line < out[k + 1].line
\* every line is fetched from the underlying reader at most once, plus one attempt at end of input per record
ReadsBounded == reads <= Len(lines) + 2 /\ pos <= Len(lines) + 1 /\ count <= Len(lines) + 1
\* the line counter agrees with the cursor: consumed lines = handed-out lines minus a pending peek
CountIsCursor == Done \/ count = (IF peeked THEN pos - 1 ELSE pos)
Termination == <>Done

\* ---------------------------------------------------------------- the transaction of a record
\* the card is a liability: a purchase (no trailing `-`) lowers the account, a credit raises it
Sign(e) == IF e.neg THEN -1 ELSE 1
AccountAmount(r) == IF r.e.neg THEN r.e.amt ELSE DecNeg(r.e.amt)
NoCost == [c |-> NoneS, v |-> NoD]
\* the counter posting: the spent amount in its own currency when one is shown (priced with the statement's
\* rate when that currency is not the card's), else the billed amount
CounterPosting(r, account) ==
  LET v == IF Spent(r.e) THEN r.e.ex ELSE r.e.amt IN
  [account |-> account, amt |-> IF r.e.neg THEN DecNeg(v) ELSE v, c |-> IF Spent(r.e) THEN r.e.cur ELSE Primary,
   cost |-> IF r.x.k = "X" THEN [c |-> Primary, v |-> r.x.rate] ELSE NoCost, payee |-> NoneS]
FeePosting(r) == [account |-> ChargeAccount, amt |-> IF r.f.credit THEN DecNeg(r.f.famt) ELSE r.f.famt, c |-> Primary, cost |-> NoCost, payee |-> Operator]
SrcPosting(r) == [account |-> Account, amt |-> AccountAmount(r), c |-> Primary, cost |-> NoCost, payee |-> NoneS]
\* Rule: the configured rewrite rules as a function from (payee, category) to the counter account (NoneS = unmatched)
ExpectedTxn(r, Rule(_, _)) ==
  LET acc == Rule(r.e.payee, r.cat)
      dest == CounterPosting(r, IF acc # NoneS THEN acc ELSE IF r.e.neg THEN "Income:Unknown" ELSE "Expenses:Unknown")
      fee == IF r.f.k = "F" THEN <<FeePosting(r)>> ELSE <<>> IN
  [day |-> r.e.day, eday |-> (IF r.e.eday = r.e.day THEN 0 ELSE r.e.eday), payee |-> r.e.payee,
   pending |-> acc = NoneS,
   posts |-> IF r.e.neg THEN <<SrcPosting(r)>> \o fee \o <<dest>> ELSE <<dest>> \o fee \o <<SrcPosting(r)>>]
\* a record whose figures are consistent (billed = spent x rate, rounded, + fee) balances in the card's currency
Billed(r) == LET base == IF r.x.k = "X" THEN r.x.samt ELSE IF Spent(r.e) THEN r.e.ex ELSE r.e.amt
                 fee == IF r.f.k # "F" THEN DZero ELSE IF r.f.credit THEN DecNeg(r.f.famt) ELSE r.f.famt IN
             \* a credit (neg) gives the fee back: billed = base - credited fee
             IF r.e.neg THEN DecSub(base, DecNeg(fee)) ELSE DecAdd(base, fee)
Consistent(r) == r.e.amt = Billed(r)
=============================================================================
