------------------------------- MODULE Report -------------------------------
(***************************************************************************)
(* Queries over the book-keeping state of Ledger.tla: the register, the    *)
(* balance report over the whole history and over half-open date ranges    *)
(* (report::query::Ledger::balance / postings, cli RegisterCmd).           *)
(***************************************************************************)
EXTENDS Ledger

NoBound == -99                      \* absent --start / --end

InRange(d, s, e) == (s = NoBound \/ s <= d) /\ (e = NoBound \/ d < e)

AccountsOfReg == UNION {{reg[i].posts[j].acct : j \in 1..Len(reg[i].posts)} : i \in 1..Len(reg)}

\* postings of account a in file order: the register
RECURSIVE RegisterOf(_, _)
RegisterOf(fp, a) == IF fp = <<>> THEN <<>>
                     ELSE LET r == RegisterOf(SubSeq(fp, 1, Len(fp) - 1), a) IN
                          IF fp[Len(fp)].acct = a THEN Append(r, fp[Len(fp)].amt) ELSE r
RECURSIVE SumAmts(_)
SumAmts(s) == IF s = <<>> THEN AmtEmpty ELSE AmtAdd(SumAmts(SubSeq(s, 1, Len(s) - 1)), s[Len(s)])

\* the register's final running total for account a (zero entries are kept by the running sum)
RegisterTotal(a) == SumAmts(RegisterOf(Flat(reg), a))

\* unrounded sum over the transactions dated in [s, e)
RECURSIVE RangeSum(_, _, _, _)
RangeSum(r, a, s, e) ==
  IF r = <<>> THEN AmtEmpty
  ELSE LET t == r[Len(r)]
           rest == RangeSum(SubSeq(r, 1, Len(r) - 1), a, s, e)
       IN IF InRange(t.date, s, e) THEN AmtAdd(rest, SumAmts(RegisterOf(t.posts, a))) ELSE rest
RangeRaw(a, s, e) == Strip(RangeSum(reg, a, s, e))
\* what `balance --start s --end e` shows: stripped, then rounded to declared precision
BalanceRange(a, s, e) == AmtRound(RangeRaw(a, s, e), prec)
\* what `balance` without range shows: the incrementally maintained balance
BalanceAll(a) == BalOf(bal, a)

\* ------------------------------------------------------------------ C04
QueryDates == {NoBound} \cup 0..4
Finished == status.s = "ok"

\* whole-history report = sum of the register
WholeIsRegister == Finished => \A a \in AccountsOfReg : BalanceAll(a) = Strip(RegisterTotal(a))
\* whole-history report agrees with the range path over (-inf, +inf) up to rounding
WholeRangeAgrees == Finished => \A a \in AccountsOfReg : AmtRound(BalanceAll(a), prec) = BalanceRange(a, NoBound, NoBound)
\* adjacent ranges add up (before rounding)
RangeAdditive ==
  Finished => \A a \in AccountsOfReg : \A s, m, e \in QueryDates :
     ((s = NoBound \/ m = NoBound \/ s <= m) /\ (m = NoBound \/ e = NoBound \/ m <= e) /\ m # NoBound)
        => Strip(AmtAdd(RangeRaw(a, s, m), RangeRaw(a, m, e))) = RangeRaw(a, s, e)
\* half-open: [d, d) is empty; a transaction dated d is in [d, .) and not in [., d)
HalfOpen ==
  Finished => \A a \in AccountsOfReg : \A d \in 0..4 :
     /\ RangeRaw(a, d, d) = AmtEmpty
     /\ Strip(AmtAdd(RangeRaw(a, NoBound, d), RangeRaw(a, d, NoBound))) = BalanceAll(a)
NoZeroShown == Finished => \A a \in AccountsOfReg : \A s, e \in QueryDates : \A c \in DOMAIN RangeRaw(a, s, e) : ~DecIsZero(RangeRaw(a, s, e)[c])
=============================================================================
