#!/bin/sh
# usage: tools/try_seeded.sh <seeded dir name> <ID> [tier]   -- applies the patch to /repo, runs the check, reverts
d=/verif/seeded/$1; id=$2; tier=${3:-quick}
cd /repo && [ -z "$(git status --porcelain --untracked-files=no)" ] || { echo "/repo not clean"; exit 3; }
{ git apply "$d/patch.diff" 2>/dev/null || git apply --3way "$d/patch.diff" 2>/dev/null; } || { echo "PATCH DOES NOT APPLY"; git reset -q --hard HEAD; exit 3; }
cd /verif && mkdir -p .work/evidence-scratch && VERIF_EVIDENCE_DIR=/verif/.work/evidence-scratch ./check "$id" "$tier" 2>&1 | grep -v "^\[check\]" | head -${LINES_MAX:-12}
git -C /repo reset -q --hard HEAD
git -C /repo status --short | head -3
