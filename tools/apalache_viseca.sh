#!/bin/sh
# Apalache: IndInv of spec/ImportVisecaCursor.tla is inductive for statements of any content (<= 12 lines), with
# non-vacuity probes.  Exit 0 iff base case and step hold AND every probe is refuted.  usage: tools/apalache_viseca.sh
ROOT=$(cd "$(dirname "$0")/.." && pwd)
W=$ROOT/.work/apalache-viseca-$$
mkdir -p $W && cp $ROOT/spec/ImportVisecaCursor.tla $ROOT/spec/apalache/ImportVisecaInd.tla $W/ && cd $W || exit 2
run() { timeout 900 apalache-mc check --cinit=ConstInit --init=$1 --inv=$2 --length=$3 --out-dir=$W/out ImportVisecaInd.tla 2>&1 | grep -E "^EXITCODE|EXITCODE:" | tail -1; }
rc=0
r=$(run Init IndInv 0);        echo "base case  Init => IndInv:                $r"; case "$r" in *OK*) ;; *) rc=1;; esac
r=$(run IndInit IndInv 1);     echo "step       IndInv /\\ Next => IndInv':      $r"; case "$r" in *OK*) ;; *) rc=1;; esac
r=$(run IndInit ProbeAirRead 1); echo "probe      pc # airread (must be refuted): $r"; case "$r" in *ERROR*12*) ;; *) rc=1;; esac
r=$(run IndInit ProbeDeep 1);  echo "probe      count <= 9 (must be refuted):   $r"; case "$r" in *ERROR*12*) ;; *) rc=1;; esac
r=$(run WeakInit WeakInv 1);   echo "probe      weakened invariant (refuted):   $r"; case "$r" in *ERROR*12*) ;; *) rc=1;; esac
cd $ROOT && rm -rf $W
exit $rc
