#!/bin/sh
# usage: tools/tlcrun.sh <MC module.tla> <cfg> [extra TLC args]   -- a plain TLC run in spec/mc (REPLAY lines dropped)
cd /verif/spec/mc && m=$1 && c=$2 && shift 2 && JAVA_TOOL_OPTIONS="-DTLA-Library=/verif/spec -Xss64m" timeout ${TLC_TIMEOUT:-900} tlc -workers ${TLC_WORKERS:-8} -config $c -metadir /verif/.work/tlcrun-$$ -cleanup -noGenerateSpecTE "$@" $m 2>&1 | grep -v '"REPLAY"' ; rm -rf /verif/.work/tlcrun-$$
