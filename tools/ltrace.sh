#!/bin/sh
# usage: tools/ltrace.sh <trace.ndjson>  -- validates a recorded loader trace against spec/LoaderTrace.tla
cd /verif/spec/mc && TRACE=$1 JAVA_TOOL_OPTIONS="-DTLA-Library=/verif/spec -Xss512m -Xmx4g -Dtlc2.tool.queue.IStateQueue=StateDeque" timeout ${TLC_TIMEOUT:-900} tlc -workers 1 -config LoaderTrace.cfg -metadir /verif/.work/tlcrun-lt-$$ -cleanup -noGenerateSpecTE MCLoaderTrace.tla 2>&1 | grep -A12 "Starting\.\.\." | grep -v "^   \|^      " | head -${LINES_MAX:-30}; rm -rf /verif/.work/tlcrun-lt-$$
