#!/usr/bin/env python3
"""Validates the checks against the mutant catalogue (mutants/catalogue.json):
for each mutant: replace `old` by `new` in /repo/<file> (must match exactly once), run the owning
property's quick check, expect exit 1 with a VIOLATION line, and revert.  Never commits anything.
usage: tools/mutants.py [ID-prefix ...]     e.g. tools/mutants.py C05 C19"""
import json, os, subprocess, sys, time
ROOT = os.path.dirname(os.path.dirname(os.path.abspath(__file__)))
cat = json.load(open(os.path.join(ROOT, "mutants", "catalogue.json")))
sel = sys.argv[1:]
results = []
for m in cat:
    if sel and not any(m["id"].startswith(s) or m["property"] == s for s in sel):
        continue
    path = os.path.join("/repo", m["file"])
    src = open(path).read()
    if src.count(m["old"]) != 1:
        print("%-28s SKIP (pattern occurs %d times)" % (m["id"], src.count(m["old"])))
        results.append((m["id"], "skip"))
        continue
    if subprocess.run(["git", "-C", "/repo", "status", "--porcelain", "--untracked-files=no"], capture_output=True, text=True).stdout.strip():
        print("/repo has uncommitted changes; refusing"); sys.exit(2)
    open(path, "w").write(src.replace(m["old"], m["new"]))
    t = time.time()
    try:
        b = subprocess.run(["cargo", "build", "--offline", "-q"], cwd="/repo", capture_output=True, text=True)
        if b.returncode != 0:
            print("%-28s DOES-NOT-COMPILE" % m["id"]); results.append((m["id"], "nocompile")); continue
        scratch = os.path.join(ROOT, ".work", "evidence-scratch")
        os.makedirs(scratch, exist_ok=True)
        p = subprocess.run(["./check", m["property"], "quick"], cwd=ROOT, capture_output=True, text=True, env=dict(os.environ, VERIF_EVIDENCE_DIR=scratch))
        viol = [l for l in p.stdout.splitlines() if l.startswith("VIOLATION")]
        first = next((l for l in p.stdout.splitlines() if l.startswith("  ")), "")
        verdict = "CAUGHT" if p.returncode == 1 and viol else ("MISSED" if p.returncode == 0 else "TOOL-ERROR rc=%d" % p.returncode)
        print("%-28s %-10s %4.0fs  %s" % (m["id"], verdict, time.time() - t, first.strip()[:150]))
        results.append((m["id"], verdict))
    finally:
        subprocess.run(["git", "-C", "/repo", "checkout", "--", "."], check=True)
json.dump(results, open(os.path.join(ROOT, ".work", "mutants-last.json"), "w"), indent=1)
