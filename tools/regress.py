#!/usr/bin/env python3
"""Final regression: applies every stored seeded change (seeded/<id>-<x>/patch.diff) to /repo in turn, runs the quick check of
its property with evidence redirected to scratch, reverts, and writes seeded/REGRESSION.md.  /repo must be clean and unused.
usage: tools/regress.py [prefix ...]"""
import os, subprocess, sys, time, json
ROOT = os.path.dirname(os.path.dirname(os.path.abspath(__file__)))
sel = sys.argv[1:]
rows = []
seeds = sorted(d for d in os.listdir(os.path.join(ROOT, "seeded")) if os.path.isfile(os.path.join(ROOT, "seeded", d, "patch.diff")))
env = dict(os.environ, VERIF_EVIDENCE_DIR=os.path.join(ROOT, ".work", "evidence-scratch"))
os.makedirs(env["VERIF_EVIDENCE_DIR"], exist_ok=True)
for d in seeds:
    if sel and not any(d.startswith(s) for s in sel):
        continue
    pid = d.split("-")[0]
    if subprocess.run(["git", "-C", "/repo", "status", "--porcelain", "--untracked-files=no"], capture_output=True, text=True).stdout.strip():
        print("/repo not clean"); sys.exit(2)
    patch = os.path.join(ROOT, "seeded", d, "patch.diff")
    ok = subprocess.run(["git", "-C", "/repo", "apply", patch], capture_output=True).returncode == 0 or \
         subprocess.run(["git", "-C", "/repo", "apply", "--3way", patch], capture_output=True).returncode == 0
    if not ok:
        subprocess.run(["git", "-C", "/repo", "reset", "-q", "--hard", "HEAD"])
        rows.append((d, pid, "does not apply to HEAD any more", 0, ""))
        print("%-8s does not apply" % d); continue
    t = time.time()
    try:
        p = subprocess.run(["./check", pid, "quick"], cwd=ROOT, capture_output=True, text=True, env=env)
        viol = [l for l in p.stdout.splitlines() if l.startswith("VIOLATION")]
        first = next((l.strip() for l in p.stdout.splitlines() if l.startswith("  ")), "")
        verdict = "caught" if p.returncode == 1 and viol else ("MISSED" if p.returncode == 0 else "tool error rc=%d" % p.returncode)
    finally:
        subprocess.run(["git", "-C", "/repo", "reset", "-q", "--hard", "HEAD"], check=True)
    rows.append((d, pid, verdict, time.time() - t, first[:160]))
    print("%-8s %-10s %4.0fs %s" % (d, verdict, time.time() - t, first[:120]), flush=True)
with open(os.path.join(ROOT, "seeded", "REGRESSION.md") if not sel else os.path.join(ROOT, ".work", "regress-selected.md"), "w") as f:
    head = subprocess.run(["git", "-C", "/repo", "log", "--format=%h", "-1"], capture_output=True, text=True).stdout.strip()
    f.write("# Seeded changes against the quick checks (okane at %s)\n\n| seed | check | verdict | seconds | first report |\n|---|---|---|---|---|\n" % head)
    for r in rows:
        f.write("| %s | %s | %s | %.0f | %s |\n" % (r[0], r[1], r[2], r[3], r[4].replace("|", "\\|")))
