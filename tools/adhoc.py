#!/usr/bin/env python3
"""ad-hoc: tools/adhoc.py <module.tla> <cfg> <mode> [limit] [workers] -- generate behaviours and feed them to a harness mode, print a summary"""
import sys, os, json, collections
sys.path.insert(0, os.path.join(os.path.dirname(os.path.abspath(__file__)), "..", "lib"))
import vlib, props
mod, cfg, mode = sys.argv[1:4]
limit = int(sys.argv[4]) if len(sys.argv) > 4 else None
workers = int(sys.argv[5]) if len(sys.argv) > 5 else 8
vlib.build_harness()
nd, n, st = vlib.tlc_gen(mod, cfg, "adhoc-" + cfg, workers=workers, timeout=3000, dedup=True)
print(st)
if limit:
    recs = vlib.read_records(nd)[:limit]
    with open(nd, "w") as f:
        for r in recs: f.write(json.dumps(r) + "\n")
res = vlib.run_vh(mode, nd)
recs = vlib.read_records(nd)
kinds = collections.Counter()
first = {}
cls = collections.Counter()
for rec, r in zip(recs, res):
    for c in r.get("classes", []): cls[c] += 1
    if not r.get("ok"):
        k = (r.get("viol") or [{"kind": "?"}])[0]["kind"]
        kinds[k] += 1
        first.setdefault(k, (rec, r))
print("records", len(recs), "bad", sum(kinds.values()), dict(kinds))
print("classes", dict(cls))
for k, (rec, r) in first.items():
    print("==", k)
    print(json.dumps({k: v for k, v in r.items() if k not in ("layout", "classes")}, ensure_ascii=False)[:int(os.environ.get("W", "1200"))])
    print(json.dumps({k: v for k, v in rec.items() if k not in ("expect", "style")}, ensure_ascii=False)[:int(os.environ.get("W", "800"))])
