#!/bin/bash
# usage: verify_seed.sh <ID> <worktree>  -> prints SUITE/DEMO-WITH/DEMO-WITHOUT verdicts
id=$1; wt=$2; out=/tmp/seed8/out/$id
cd $wt || exit 2
git checkout -q -- . ; git clean -fdq -e target
demo=$(ls $out/*.rs | head -1); [ -f "$demo" ] || { echo "$id: no demo"; exit 2; }
if grep -q "okane_golden" $demo; then crate=golden; pkg=okane-golden; elif grep -q "okane::\|CARGO_BIN_EXE_okane\|use okane\b" $demo; then crate=cli; pkg=okane; else crate=core; pkg=okane-core; fi
name=$(basename $demo .rs)
export CARGO_TARGET_DIR=$wt/target
git apply $out/patch.diff || { echo "$id: PATCH DOES NOT APPLY"; exit 2; }
s=$(cargo test --workspace --no-fail-fast --offline 2>&1 | grep -E "^test result" | awk '{p+=$4; f+=$6} END {print p" passed "f" failed"}')
cp $demo $crate/tests/$name.rs
w=$(cargo test -p $pkg --test $name --offline 2>&1 | grep -E "^test result" | head -1)
git apply -R $out/patch.diff
wo=$(cargo test -p $pkg --test $name --offline 2>&1 | grep -E "^test result" | head -1)
git checkout -q -- . ; git clean -fdq -e target
echo "$id [$pkg] SUITE-WITH: $s || DEMO-WITH: $w || DEMO-WITHOUT: $wo"
