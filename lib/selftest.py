"""./check selftest [mutants ...] -- demonstrations that the machinery binds and is not vacuous.

 (a) a recorded trace is accepted by LedgerTrace.tla; corrupting one logged field makes it rejected;
 (b) removing one event makes it rejected;
 (c) flipping one `expect` field of a TLC-generated behaviour makes the replay harness report it;
 (d) every action of Ledger.tla / Loader.tla is taken in the bounded models (TLC -coverage 1);
 (e) `./check selftest mutants [ID...]` runs the mutant catalogue (tools/mutants.py).
Not registered as a property check; exit 0 iff every demonstration behaves as stated.
"""
import json, os, re, subprocess, sys
from vlib import (ToolError, log, run_tlc, parse_stats, parse_coverage, tlc_gen, read_records, run_vh, build_harness, WORK, VH, ROOT)


def validate_trace(path):
    rc, out, secs = run_tlc("../LedgerTrace.tla", "LedgerTrace.cfg", workers=1, timeout=600, env_extra={"TRACE": path},
                            java_extra="-Xss1g -Dtlc2.tool.queue.IStateQueue=StateDeque")
    m = re.search(r'TRACE-REJECTED at event",\s*(\d+)', out)
    if "No error has been found" in out and not m:
        return None
    if m:
        return int(m.group(1))
    return -1


def main(argv):
    if argv and argv[0] == "mutants":
        return subprocess.run([os.path.join(ROOT, "tools", "mutants.py")] + argv[1:]).returncode
    build_harness()
    os.makedirs(WORK, exist_ok=True)
    ok = True

    def say(name, good, detail=""):
        nonlocal ok
        ok = ok and good
        print("%-58s %s %s" % (name, "ok" if good else "FAILED", detail))

    # ---- (a), (b): trace validation binds
    tr = os.path.join(WORK, "selftest-trace.ndjson")
    inp = os.path.join(WORK, "selftest-inputs.ndjson")
    subprocess.run([VH, "ledger-trace", "--seed", "11", "--runs", "30", "--out", tr, "--inputs", inp], check=True, stdout=subprocess.PIPE)
    events = open(tr).read().splitlines()
    say("(a) recorded trace of 30 runs is accepted", validate_trace(tr) is None, "%d events" % len(events))
    idx = next(i for i, l in enumerate(events) if '"ev":"post"' in l and '"bal_after":[{' in l and i > 10)
    e = json.loads(events[idx])
    e["bal_after"][0]["m"] += 1
    bad = list(events)
    bad[idx] = json.dumps(e)
    p = os.path.join(WORK, "selftest-corrupt.ndjson")
    open(p, "w").write("\n".join(bad) + "\n")
    r = validate_trace(p)
    say("(a) one logged balance off by one unit -> rejected at that event", r == idx + 1, "rejected at %s, corrupted %d" % (r, idx + 1))
    idx2 = next(i for i, l in enumerate(events) if '"ev":"commit"' in l and i > 20)
    bad = events[:idx2] + events[idx2 + 1:]
    open(p, "w").write("\n".join(bad) + "\n")
    r = validate_trace(p)
    say("(b) one commit event removed -> rejected", r is not None and r != -1, "rejected at %s (removed %d)" % (r, idx2 + 1))

    # ---- (a'), (b'): the loader trace binds as well
    from props import validate_loader_trace
    nd, n, st = tlc_gen("MCLoader.tla", "Loader_Glob.cfg", "selftest-glob", workers=4, timeout=900, dedup=True)
    ltr = os.path.join(WORK, "selftest-ltrace.ndjson")
    bad, lst = validate_loader_trace(nd, ltr, stride=16)
    say("(a') recorded loader events of %d runs are accepted by LoaderTrace.tla" % lst["runs"], not bad, "%d events" % lst["events"])
    levents = open(ltr).read().splitlines()

    def lvalidate(lines):
        q = os.path.join(WORK, "selftest-ltrace-bad.ndjson")
        open(q, "w").write("\n".join(lines) + "\n")
        rc, out, secs = run_tlc("MCLoaderTrace.tla", "LoaderTrace.cfg", workers=1, timeout=600, env_extra={"TRACE": q},
                                java_extra="-Xss1g -Xmx4g -Dtlc2.tool.queue.IStateQueue=StateDeque")
        m = re.search(r'TRACE-REJECTED at event",\s*(\d+)', out)
        return int(m.group(1)) if m else (None if "No error has been found" in out else -1)
    k = next(i for i, l in enumerate(levents) if '"ev":"deliver"' in l and i > 40)
    e = json.loads(levents[k]); e["pos"] += 1
    r = lvalidate(levents[:k] + [json.dumps(e)] + levents[k + 1:])
    say("(a') one logged position off by one -> rejected at that event", r == k + 1, "rejected at %s, corrupted %d" % (r, k + 1))
    k = next(i for i, l in enumerate(levents) if '"ev":"descend"' in l and len(json.loads(l)["matches"]) >= 2 and i > 40)
    e = json.loads(levents[k]); e["matches"] = e["matches"][::-1]
    r = lvalidate(levents[:k] + [json.dumps(e)] + levents[k + 1:])
    say("(a') the sorted matches of an include reversed -> rejected at that event", r == k + 1, "rejected at %s, corrupted %d" % (r, k + 1))
    k = next(i for i, l in enumerate(levents) if '"ev":"return"' in l and i > 40)
    r = lvalidate(levents[:k] + levents[k + 1:])
    say("(b') one return event removed -> rejected", r is not None and r != -1, "rejected at %s (removed %d)" % (r, k + 1))

    # ---- (a''), (b''): the Viseca statement reader's trace binds
    ndv, nv, stv = tlc_gen("MCImportViseca.tla", "ImportViseca_wf_quick.cfg", "selftest-viseca", workers=4, timeout=900)
    vtr = os.path.join(WORK, "selftest-vtrace.ndjson")
    pr = subprocess.run([VH, "viseca-trace", "--in", ndv, "--out", vtr, "--stride", "7"], stdout=subprocess.PIPE, text=True, check=True)
    vinfo = json.loads(pr.stdout.strip().splitlines()[-1])
    vevents = open(vtr).read().splitlines()

    def vvalidate(lines):
        q = os.path.join(WORK, "selftest-vtrace-bad.ndjson")
        open(q, "w").write("\n".join(lines) + "\n")
        rc, out, secs = run_tlc("MCImportVisecaTrace.tla", "ImportVisecaTrace.cfg", workers=1, timeout=600, env_extra={"TRACE": q},
                                java_extra="-Xss1g -Xmx4g -Dtlc2.tool.queue.IStateQueue=StateDeque")
        m = re.search(r'TRACE-REJECTED at event",\s*(\d+)', out)
        return int(m.group(1)) if m else (None if "No error has been found" in out else -1)
    say("(a'') recorded reader events of %d imports are accepted by ImportVisecaTrace.tla" % vinfo["runs"], vinfo["hook_events"] > 0 and vvalidate(vevents) is None,
        "%d events, %d from the hook" % (len(vevents), vinfo["hook_events"]))
    k = next(i for i, l in enumerate(vevents) if '"ev":"read"' in l and i > 30)
    e = json.loads(vevents[k]); e["count"] += 1
    r = vvalidate(vevents[:k] + [json.dumps(e)] + vevents[k + 1:])
    say("(a'') one logged line counter off by one -> rejected at that event", r == k + 1, "rejected at %s, corrupted %d" % (r, k + 1))
    k = next(i for i, l in enumerate(vevents) if '"ev":"peek"' in l and '"cached":true' in l and i > 30)
    e = json.loads(vevents[k]); e["cached"] = False
    r = vvalidate(vevents[:k] + [json.dumps(e)] + vevents[k + 1:])
    say("(a'') a look-ahead logged as a fresh fetch -> rejected at that event", r == k + 1, "rejected at %s, corrupted %d" % (r, k + 1))
    k = next(i for i, l in enumerate(vevents) if '"ev":"entry"' in l and i > 30)
    r = vvalidate(vevents[:k] + vevents[k + 1:])
    say("(b'') one entry event removed -> rejected", r is not None and r != -1, "rejected at %s (removed %d)" % (r, k + 1))

    # ---- (c): a flipped expectation is reported by the replay harness
    nd, n, st = tlc_gen("MCLedger.tla", "Ledger_Round.cfg", "selftest-round", workers=4, timeout=900)
    recs = read_records(nd)
    k = next(i for i, r in enumerate(recs) if r["expect"]["verdict"] == "ok" and r["expect"]["bal"])
    rec = recs[k]
    acct = sorted(rec["expect"]["bal"].keys())[0]
    com = sorted(rec["expect"]["bal"][acct].keys())[0]
    rec["expect"]["bal"][acct][com]["m"] += 1
    one = os.path.join(WORK, "selftest-flip.ndjson")
    open(one, "w").write(json.dumps(rec) + "\n")
    res = run_vh("ledger", one)
    say("(c) balance expectation off by one -> harness reports it", not res[0]["ok"], str([v["kind"] for v in res[0].get("viol", [])]))
    rec = recs[k + 1] if recs[k + 1]["expect"]["verdict"] == "ok" else recs[k]
    rec = json.loads(json.dumps(rec))
    rec["expect"]["verdict"] = "rej"
    rec["expect"]["entry"] = 1
    rec["expect"]["kinds"] = ["unbalanced"]
    open(one, "w").write(json.dumps(rec) + "\n")
    res = run_vh("ledger", one)
    say("(c) verdict flipped to `rejected` -> harness reports it", not res[0]["ok"], str([v["kind"] for v in res[0].get("viol", [])]))

    # ---- (d): no dead action in the bounded models (per-line counts of TLC's -coverage 1)
    def action_counts(spec_file, module_name, actions, mc_module, cfgs):
        src = open(os.path.join(ROOT, "spec", spec_file)).read().splitlines()
        starts = [i + 1 for i, l in enumerate(src) if re.match(r"^[A-Za-z][A-Za-z0-9_]*(\([^)]*\))? ==", l)]
        ranges = {}
        for a in actions:
            st = next(i + 1 for i, l in enumerate(src) if re.match(r"^%s(\([^)]*\))? ==" % a, l))
            en = min([x for x in starts if x > st] + [len(src) + 1])
            ranges[a] = (st, en)
        counts = {a: 0 for a in actions}
        for cfg in cfgs:
            text = open(os.path.join(ROOT, "spec", "mc", cfg)).read().replace("INVARIANT Emit\n", "")
            tmpcfg = os.path.join(ROOT, "spec", "mc", "_selftest_cov.cfg")
            open(tmpcfg, "w").write(text)
            try:
                rc, out, secs = run_tlc(mc_module, "_selftest_cov.cfg", workers=4, timeout=900, extra=["-coverage", "1"])
            finally:
                os.remove(tmpcfg)
            if "No error has been found" not in out:
                sys.stderr.write(out[-2000:])
                raise ToolError("coverage run failed for %s" % cfg)
            for m in re.finditer(r"line (\d+), col \d+ to line \d+, col \d+ of module %s: (\d+)" % module_name, out):
                ln, n = int(m.group(1)), int(m.group(2))
                text_line = src[ln - 1] if ln <= len(src) else ""
                for a, (st, en) in ranges.items():
                    if st <= ln < en:
                        # only lines that assign next-state values count as "the action was taken"; an action that
                        # delegates its effect (e.g. to Reject(..)) is counted by its last line
                        has_primed = any(("'" in src[k - 1] or "UNCHANGED" in src[k - 1]) for k in range(st, en))
                        if ("'" in text_line or "UNCHANGED" in text_line) if has_primed else (ln == max(k for k in range(st, en) if src[k - 1].strip())):
                            counts[a] = max(counts[a], n)
        return counts

    for spec_file, module_name, actions, mc_module, cfgs in [
        ("Ledger.tla", "Ledger", ["DeclAccount", "DeclCommodity", "BeginTxn", "PostRegular", "PostAssign", "PostOmitted", "CommitDeduce",
                                  "CommitBalanced", "CommitImplied", "RejectPair", "RejectUnbalanced", "Finish"],
         "MCLedger.tla", ["Ledger_Plain.cfg", "Ledger_CostLot.cfg", "Ledger_OmitAssign.cfg", "Ledger_Alias.cfg"]),
        ("Loader.tla", "Loader", ["Open", "Deliver", "Descend", "Enter", "Return", "Finish", "SplitOne", "SplitTwo"],
         "MCLoader.tla", ["Loader_ArbLive.cfg", "Loader_Glob.cfg", "Loader_Split.cfg"]),
        ("ImportRules.tla", "ImportRules", ["ApplyRule"], "MCImportRules.tla", ["ImportRules_rules.cfg"]),
        ("ImportViseca.tla", "ImportViseca", ["ReadEntry", "DecideBlock", "ReadCategory", "ReadExchange", "DecideFee", "ReadFee", "SkipAir", "ReadAir"],
         "MCImportViseca.tla", ["ImportViseca_wf_quick.cfg", "ImportViseca_arb_quick.cfg"]),
        ("Golden.tla", "Golden", ["SetEnv", "ExternalWrite", "ExternalDelete", "GNew", "GAssert"], "MCGolden.tla", ["Golden_small.cfg"]),
    ]:
        counts = action_counts(spec_file, module_name, actions, mc_module, cfgs)
        dead = [a for a, n in counts.items() if n == 0]
        say("(d) every action of %s is taken in its bounded models" % spec_file, not dead, "dead: %s; counts: %s" % (dead, counts))
    print("selftest: %s" % ("all demonstrations behave as stated" if ok else "FAILED"))
    return 0 if ok else 1
