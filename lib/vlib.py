"""Core of the verification driver: TLC invocation, behaviour extraction,
harness invocation with crash attribution, known-findings filter, evidence."""
import json, os, re, subprocess, sys, time, hashlib, shutil, random

ROOT = os.path.dirname(os.path.dirname(os.path.abspath(__file__)))
SPEC = os.path.join(ROOT, "spec")
MC = os.path.join(SPEC, "mc")
WORK = os.path.join(ROOT, ".work")
HARNESS = os.path.join(ROOT, "harness")
VH = os.path.join(HARNESS, "target", "release", "vh")
# tools that run the checks against a deliberately broken tree (mutants, seeded changes) point this elsewhere,
# so that the committed evidence always describes the unchanged tree
EVID = os.environ.get("VERIF_EVIDENCE_DIR") or os.path.join(ROOT, "evidence")
REPLAYS = os.path.join(ROOT, "replays")
KNOWN = os.path.join(ROOT, "known_findings.json")
REPO = os.environ.get("VERIF_REPO", "/repo")

JAVA_OPTS = "-DTLA-Library=%s -Dfile.encoding=UTF-8 -Dstdout.encoding=UTF-8 -Xss512m" % SPEC


class ToolError(Exception):
    pass


def log(*a):
    print("[check]", *a, file=sys.stderr, flush=True)


# --------------------------------------------------------------------------
# building
# --------------------------------------------------------------------------
def build_harness():
    """Rebuilds the harness (and with it okane from /repo's working tree)."""
    t = time.time()
    env = dict(os.environ, CARGO_NET_OFFLINE="true")
    p = subprocess.run(["cargo", "build", "--release", "--offline"], cwd=HARNESS, env=env,
                       stdout=subprocess.PIPE, stderr=subprocess.STDOUT, text=True)
    if p.returncode != 0:
        sys.stderr.write(p.stdout[-4000:])
        raise ToolError("harness build failed")
    log("harness built in %.1fs" % (time.time() - t))


def okane_bin():
    """The okane CLI binary built from /repo's working tree (as a harness dependency
    it is only a library, so build the bin target into the harness target dir)."""
    out = os.path.join(HARNESS, "target", "okane-bin")
    env = dict(os.environ, CARGO_NET_OFFLINE="true", CARGO_TARGET_DIR=out)
    p = subprocess.run(["cargo", "build", "--release", "--offline", "-p", "okane", "--bin", "okane"],
                       cwd=REPO, env=env, stdout=subprocess.PIPE, stderr=subprocess.STDOUT, text=True)
    if p.returncode != 0:
        sys.stderr.write(p.stdout[-4000:])
        raise ToolError("okane binary build failed")
    return os.path.join(out, "release", "okane")


# --------------------------------------------------------------------------
# TLC
# --------------------------------------------------------------------------
STATS_RE = re.compile(r"(\d+) states generated, (\d+) distinct states found")


def _tlc_cmd(module, cfg, workers, extra, metadir):
    return ["tlc", "-workers", str(workers), "-metadir", metadir, "-cleanup", "-noGenerateSpecTE",
            "-config", cfg] + extra + [module]


def run_tlc(module, cfg, workers=8, timeout=900, extra=None, env_extra=None, out_path=None, java_extra=""):
    """Runs TLC in spec/mc.  Returns (returncode, output text or path, seconds)."""
    os.makedirs(WORK, exist_ok=True)
    metadir = os.path.join(WORK, "tlc-%d-%s" % (os.getpid(), os.path.splitext(os.path.basename(cfg))[0]))
    env = dict(os.environ)
    env["JAVA_TOOL_OPTIONS"] = (JAVA_OPTS + " " + java_extra).strip()
    if env_extra:
        env.update(env_extra)
    cmd = ["timeout", str(timeout)] + _tlc_cmd(module, cfg, workers, extra or [], metadir)
    t = time.time()
    if out_path:
        with open(out_path, "w") as f:
            p = subprocess.run(cmd, cwd=MC, env=env, stdout=f, stderr=subprocess.STDOUT)
        out = out_path
    else:
        p = subprocess.run(cmd, cwd=MC, env=env, stdout=subprocess.PIPE, stderr=subprocess.STDOUT, text=True)
        out = p.stdout
    shutil.rmtree(metadir, ignore_errors=True)
    return p.returncode, out, time.time() - t


def parse_stats(text):
    m = None
    for m in STATS_RE.finditer(text):
        pass
    if not m:
        return None
    return {"generated": int(m.group(1)), "distinct": int(m.group(2))}


def parse_coverage(text):
    """-coverage 1 output: `<Action line ...>: distinct:generated` lines -> {name: (distinct, generated)}."""
    cov = {}
    for m in re.finditer(r"^<(\w+) line \d+, col \d+ to line \d+, col \d+ of module (\w+)>: (\d+):(\d+)", text, re.M):
        name = m.group(1)
        d, g = int(m.group(3)), int(m.group(4))
        if name in cov:
            cov[name] = (cov[name][0] + d, cov[name][1] + g)
        else:
            cov[name] = (d, g)
    return cov


def tlc_check(module, cfg, workers=8, timeout=900, coverage=True):
    """Model-checks the invariants/properties of a `_small` configuration.
    A violation here is a defect of the specification (my bug) -> ToolError."""
    extra = ["-coverage", "1"] if coverage else []
    rc, out, secs = run_tlc(module, cfg, workers=workers, timeout=timeout, extra=extra)
    stats = parse_stats(out)
    if rc != 0 or "No error has been found" not in out or stats is None:
        sys.stderr.write(out[-6000:])
        raise ToolError("TLC reported an error on %s/%s (rc=%s): the specification itself is inconsistent" % (module, cfg, rc))
    cov = parse_coverage(out) if coverage else {}
    log("TLC %s %s: %d distinct states, %d generated, %.1fs" % (module, cfg, stats["distinct"], stats["generated"], secs))
    return {"module": module, "cfg": cfg, "states": stats["distinct"], "transitions": stats["generated"],
            "seconds": round(secs, 1), "actions": {k: v[1] for k, v in cov.items()}}


REPLAY_PREFIX = '<<"REPLAY", "'


def extract_replays(path, out_ndjson, dedup=False):
    """Turns TLC's PrintT(<<"REPLAY", ToJson(..)>>) lines into ndjson records."""
    n = 0
    seen = set()
    with open(path, errors="replace") as f, open(out_ndjson, "w") as o:
        for line in f:
            if not line.startswith(REPLAY_PREFIX):
                continue
            s = line.rstrip("\n")
            if not s.endswith('">>'):
                raise ToolError("truncated REPLAY line in %s" % path)
            inner = s[len('<<"REPLAY", '):-2]
            try:
                txt = json.loads(inner)      # TLA+ string quoting is JSON-compatible (\" and \\)
                json.loads(txt)
            except Exception as e:
                raise ToolError("cannot decode REPLAY line: %s: %s" % (e, s[:200]))
            if dedup:
                h = hashlib.md5(txt.encode()).digest()
                if h in seen:
                    continue
                seen.add(h)
            o.write(txt + "\n")
            n += 1
    return n


def tlc_gen(module, cfg, name, workers=1, timeout=900, simulate=None, seed=None, dedup=False):
    """Runs a `_gen` configuration (or -simulate) and returns (ndjson path, #records, stats)."""
    os.makedirs(WORK, exist_ok=True)
    raw = os.path.join(WORK, name + ".tlcout")
    nd = os.path.join(WORK, name + ".ndjson")
    extra = []
    if simulate:
        extra += ["-simulate", "num=%d" % simulate["num"], "-depth", str(simulate["depth"])]
        if seed is not None:
            extra += ["-seed", str(seed)]
        workers = 1
    # simulation keeps no state set: a bounded heap avoids the JVM growing to a quarter of the machine (62 GB, no swap)
    rc, out, secs = run_tlc(module, cfg, workers=workers, timeout=timeout, extra=extra, out_path=raw, java_extra="-Xmx6g" if simulate else "")
    tail = subprocess.run(["tail", "-c", "6000", raw], stdout=subprocess.PIPE, text=True).stdout
    if simulate:
        ok = rc in (0, 124) or "Finished in" in tail or "simulation" in tail.lower()
    else:
        ok = rc == 0 and "No error has been found" in tail
    if not ok:
        sys.stderr.write(tail)
        raise ToolError("TLC generation run failed on %s/%s (rc=%s)" % (module, cfg, rc))
    n = extract_replays(raw, nd, dedup=dedup or bool(simulate))
    stats = parse_stats(tail) or {"generated": 0, "distinct": 0}
    os.remove(raw)
    log("TLC gen %s %s: %d behaviours, %d states, %.1fs" % (module, cfg, n, stats["distinct"], secs))
    return nd, n, {"module": module, "cfg": cfg, "states": stats["distinct"], "transitions": stats["generated"],
                   "behaviours": n, "seconds": round(secs, 1), "simulate": simulate}


# --------------------------------------------------------------------------
# harness
# --------------------------------------------------------------------------
def read_records(path):
    with open(path) as f:
        return [json.loads(l) for l in f if l.strip()]


MAX_FATAL_PER_RANGE = int(os.environ.get("VERIF_MAX_FATAL", "12"))


def _run_vh_range(mode, infile, lo, hi, budget_ms, extra, deadline, env, results):
    """Runs records lo..hi-1; attributes aborts and hangs to the record being processed and continues after it."""
    start = lo
    restarts = 0
    while start < hi:
        cmd = [VH, mode, "--in", infile, "--start", str(start), "--limit", str(hi - start), "--budget-ms", str(budget_ms)] + (extra or [])
        p = subprocess.Popen(cmd, stdout=subprocess.PIPE, stderr=subprocess.PIPE, text=True, env=env, cwd=ROOT)
        try:
            out, err = p.communicate(timeout=max(10, deadline - time.time()))
        except subprocess.TimeoutExpired:
            p.kill()
            raise ToolError("harness batch timeout in mode %s" % mode)
        last = start - 1
        named = None          # record the watchdog named in this run
        for line in out.splitlines():
            if not line.startswith("{"):
                continue
            try:
                r = json.loads(line)
            except Exception:
                continue
            results[r["i"]] = r
            last = max(last, r["i"])
            if r.get("fatal"):
                named = r["i"]
        if p.returncode == 0:
            break
        if p.returncode == 2:
            sys.stderr.write(err[-3000:])
            raise ToolError("harness tool error in mode %s" % mode)
        # crash or watchdog exit: culprit is the record after the last completed one,
        # or the one the watchdog named.
        if named is not None:
            culprit = named
        else:
            culprit = last + 1
            sig = -p.returncode if p.returncode < 0 else p.returncode
            results[culprit] = {"i": culprit, "ok": False, "fatal": "abort", "status": sig,
                                "stderr": err[-800:]}
        if results[culprit].get("fatal"):
            r = results[culprit]
            r["ok"] = False
            r.setdefault("viol", []).append({"kind": "fatal_" + r["fatal"],
                                             "msg": "process %s while handling this record (%s)" % (r["fatal"], (r.get("stderr") or "").strip()[-300:])})
        start = culprit + 1
        restarts += 1
        if restarts >= MAX_FATAL_PER_RANGE:
            # the code under test keeps aborting or hanging: enough evidence, stop this range
            # (the remaining records are marked skipped and are not counted as evaluated)
            for i in range(start, hi):
                results[i] = {"i": i, "ok": True, "skipped": True}
            log("range %d..%d: %d aborts/timeouts, remaining %d records skipped" % (lo, hi, restarts, hi - start))
            break


def run_vh(mode, infile, budget_ms=5000, extra=None, timeout=3600, env_extra=None, jobs=None):
    """Runs the harness over every record of `infile` (in `jobs` parallel processes over
    contiguous ranges).  Returns a list of result dicts indexed like the records."""
    import threading
    total = sum(1 for l in open(infile) if l.strip())
    results = {}
    env = dict(os.environ, VH_WORK=WORK)
    if env_extra:
        env.update(env_extra)
    jobs = jobs or int(os.environ.get("VERIF_JOBS", "6"))
    jobs = max(1, min(jobs, (total + 199) // 200))
    deadline = time.time() + timeout
    bounds = [(total * k // jobs, total * (k + 1) // jobs) for k in range(jobs)]
    errors = []

    def work(lo, hi):
        try:
            _run_vh_range(mode, infile, lo, hi, budget_ms, extra, deadline, env, results)
        except ToolError as e:
            errors.append(e)

    ths = [threading.Thread(target=work, args=b) for b in bounds if b[0] < b[1]]
    for t in ths:
        t.start()
    for t in ths:
        t.join()
    if errors:
        raise errors[0]
    res = [results.get(i) for i in range(total)]
    missing = [i for i, r in enumerate(res) if r is None]
    if missing:
        raise ToolError("harness produced no result for %d records (first %s)" % (len(missing), missing[:3]))
    return res


# --------------------------------------------------------------------------
# known findings
# --------------------------------------------------------------------------
def load_known():
    if not os.path.exists(KNOWN):
        return {"findings": [], "fixed": []}
    with open(KNOWN) as f:
        return json.load(f)


# --------------------------------------------------------------------------
# a check run
# --------------------------------------------------------------------------
class Run:
    def __init__(self, pid, tier, seed):
        self.pid = pid
        self.tier = tier
        self.seed = seed
        self.t0 = time.time()
        self.models = []          # tlc_check / tlc_gen stats
        self.evaluations = 0
        self.nontrivial = set()
        self.samples = []
        self.traces = 0
        self.violations = []      # (signature or None, replay path, message)
        self.known_hits = {}      # signature -> count
        self.assumptions = []
        self.rule = ""
        self.extra = {}
        self.exhaustive = None
        self.known = load_known()
        self.rng = random.Random(seed)
        os.makedirs(WORK, exist_ok=True)
        os.makedirs(REPLAYS, exist_ok=True)

    # -- bookkeeping -----------------------------------------------------
    def add_model(self, m):
        self.models.append(m)

    def count(self, rec_key, classes):
        """one evaluated case; `classes` non-empty => non-trivial by the property's rule"""
        self.evaluations += 1
        if classes:
            self.nontrivial.add(rec_key)

    def sample(self, s):
        if len(self.samples) < 4:
            self.samples.append(s)

    def signature_listed(self, sig):
        for f in self.known.get("findings", []):
            if f["property"] == self.pid and f["signature"] == sig:
                return f
        return None

    def report(self, sig, record, result, msg):
        """A disagreement between specification and code."""
        f = self.signature_listed(sig) if sig else None
        if f:
            self.known_hits.setdefault(sig, [0, f, None])
            self.known_hits[sig][0] += 1
            if self.known_hits[sig][2] is None:
                self.known_hits[sig][2] = {"record": record, "result": result, "msg": msg}
            return
        n = len(self.violations)
        path = os.path.join(REPLAYS, "%s-%s-%d-%d.json" % (self.pid, self.tier, self.seed, n))
        if n < 25:
            with open(path, "w") as fo:
                json.dump({"property": self.pid, "signature": sig, "message": msg, "record": record,
                           "result": result}, fo, indent=1, ensure_ascii=False)
        self.violations.append((sig, path, msg))

    # -- finishing -----------------------------------------------------
    def finish(self):
        wall = time.time() - self.t0
        states = sum(m["states"] for m in self.models)
        trans = sum(m["transitions"] for m in self.models)
        cov = {
            "states": states, "transitions": trans,
            "traces_validated_against_impl": self.traces,
            "samples": self.samples if self.samples else [{"note": "no sample recorded"}],
            "evaluations": self.evaluations,
            "distinct_nontrivial": len(self.nontrivial),
            "rule": self.rule,
            "models": self.models,
            "known_findings_hit": {k: v[0] for k, v in self.known_hits.items()},
        }
        if self.exhaustive is not None:
            cov["exhaustive"] = self.exhaustive
        cov.update(self.extra)
        ev = {"property_id": self.pid, "tier": self.tier, "seed": self.seed, "level": "model_checking",
              "coverage": cov, "assumptions": self.assumptions, "wall_s": round(wall, 1),
              "violations": len(self.violations)}
        os.makedirs(EVID, exist_ok=True)
        with open(os.path.join(EVID, self.pid + ".json"), "w") as f:
            json.dump(ev, f, indent=1, ensure_ascii=False)
        for sig, (n, f, ex) in sorted(self.known_hits.items()):
            print("KNOWN-FINDING: property=%s %s [%s, %d occurrences this run]" % (self.pid, f["what"], sig, n))
        shown = {}
        for sig, path, msg in self.violations:
            k = sig or msg[:60]
            shown[k] = shown.get(k, 0) + 1
            if shown[k] <= 3 and os.path.exists(path):
                print("VIOLATION property=%s replay=%s" % (self.pid, path))
                print("  " + msg[:400].replace("\n", "\n  "))
        if self.violations:
            print("%d violations in total (%d distinct signatures)" % (len(self.violations), len(shown)))
            return 1
        print("OK property=%s tier=%s evaluations=%d nontrivial=%d states=%d traces=%d wall=%.0fs" % (
            self.pid, self.tier, self.evaluations, len(self.nontrivial), states, self.traces, wall))
        return 0


# --------------------------------------------------------------------------
# entry
# --------------------------------------------------------------------------
def main(argv):
    if not argv:
        print(__doc__)
        return 2
    import props
    try:
        if argv[0] == "setup":
            return props.setup()
        if argv[0] == "selftest":
            import selftest
            return selftest.main(argv[1:])
        pid = argv[0]
        if pid not in props.CHECKS:
            print("unknown property", pid)
            return 2
        seed = int(os.environ.get("VERIF_SEED", "1"))
        if len(argv) >= 3 and argv[1] == "--replay":
            return props.replay(pid, argv[2])
        tier = argv[1] if len(argv) > 1 else os.environ.get("VERIF_TIER", "quick")
        if tier not in ("quick", "thorough"):
            print("tier must be quick or thorough")
            return 2
        build_harness()
        run = Run(pid, tier, seed)
        props.CHECKS[pid](run)
        return run.finish()
    except ToolError as e:
        print("TOOL-ERROR: %s" % e, file=sys.stderr)
        return 2
