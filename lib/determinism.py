"""C13: run-to-run determinism of the okane binary.

spec/HashOrder.tla models every place where an unordered map is walked into something
observable and tells for which map shapes (number of entries, distinct values) a walk can
differ between two processes.  For each such class concrete inputs are built here
(multi-commodity balances and register totals, error text with a multi-commodity balance,
equally ranked price chains with different rates, a rule element with several capturing
fields, ...), and the real binary is run N times in fresh processes on each; stdout, stderr
and the exit status must be byte-identical.  Order-insensitive commands get the corpora of
the other checks as well.
"""
import json, os, re, shutil, subprocess, sys
from vlib import ToolError, log, run_tlc, parse_stats, okane_bin, WORK

COMMODITIES = ["AAA", "BBB", "CCC", "DDD", "EEE", "FFF"]


def classes_from_tlc(run):
    """[(n entries, distinct values, {site: sensitive})] from HashOrder.tla."""
    rc, out, secs = run_tlc("../HashOrder.tla", "HashOrder.cfg", workers=4, timeout=600)
    st = parse_stats(out)
    if rc != 0 or "No error has been found" not in out or not st:
        sys.stderr.write(out[-3000:])
        raise ToolError("HashOrder.tla: TLC reported an error")
    run.add_model({"module": "HashOrder.tla", "cfg": "HashOrder.cfg", "states": st["distinct"], "transitions": st["generated"], "seconds": round(secs, 1)})
    rc, out, secs = run_tlc("../HashOrder.tla", "HashOrder_classes.cfg", workers=1, timeout=600)
    st = parse_stats(out) or {"distinct": 0, "generated": 0}
    run.add_model({"module": "HashOrder.tla", "cfg": "HashOrder_classes.cfg", "states": st["distinct"], "transitions": st["generated"], "seconds": round(secs, 1)})
    cls = set()
    for m in re.finditer(r'<<"CLASS", (\d+), (\d+), (TRUE|FALSE), (TRUE|FALSE), (TRUE|FALSE), (TRUE|FALSE)>>', out):
        cls.add((int(m.group(1)), int(m.group(2)), m.group(3) == "TRUE", m.group(4) == "TRUE", m.group(5) == "TRUE", m.group(6) == "TRUE"))
    if not cls:
        raise ToolError("HashOrder.tla emitted no class")
    # site 5 (first invalid entry of a validating walk): (entries, invalid entries, sensitive)
    global INVALID_CLASSES
    INVALID_CLASSES = sorted(set((int(m.group(1)), int(m.group(2)), m.group(3) == "TRUE")
                                 for m in re.finditer(r'<<"CLASS5", (\d+), (\d+), (TRUE|FALSE)>>', out)))
    if not any(c[2] for c in INVALID_CLASSES):
        raise ToolError("HashOrder.tla emitted no sensitive class for site 5")
    # site 6 (the first two entries of a map with irrelevant entries): (entries, irrelevant entries, sensitive)
    global PAIR_CLASSES
    PAIR_CLASSES = sorted(set((int(m.group(1)), int(m.group(2)), m.group(3) == "TRUE")
                              for m in re.finditer(r'<<"CLASS6", (\d+), (\d+), (TRUE|FALSE)>>', out)))
    if not any(c[2] for c in PAIR_CLASSES):
        raise ToolError("HashOrder.tla emitted no sensitive class for site 6")
    return sorted(cls)


INVALID_CLASSES = []
PAIR_CLASSES = []


def cancelled_pair_inputs(base):
    """Site 6: a transaction whose residual holds `zero` commodities that cancel exactly next to two of opposite sign (the
    shape of an implied exchange); whether okane accepts it or not, it must decide the same way in every process."""
    jobs = []
    for (n, zero, sensitive) in PAIR_CLASSES:
        if not sensitive or n > len(COMMODITIES):
            continue
        d = os.path.join(base, "pair_n%d_z%d" % (n, zero))
        cs = COMMODITIES[:n]
        # interleave: the cancelling commodities are spread over the alphabet so that no fixed order hides the walk
        zeros = cs[1::2][:zero] + [c for c in cs[0::2]][:max(0, zero - len(cs[1::2]))]
        pair = [c for c in cs if c not in zeros][:2]
        t = "2024/01/01 swap with cancelled legs\n"
        for c in zeros:
            t += "    Assets:Wallet  10 %s\n    Assets:Other  -10 %s\n" % (c, c)
        t += "    Assets:Wallet  5 %s\n    Assets:Wallet  -800 %s\n\n" % (pair[0], pair[1])
        p = write(d, "cancelled_pair.ledger", t)
        for cmd in ("balance", "register"):
            jobs.append(("cancelled_pair n=%d zero=%d" % (n, zero), [cmd, p]))
    return jobs


def invalid_template_inputs(base):
    """Site 5: a CSV configuration in which `invalid` of `n` fields carry a template that cannot be parsed; okane import must
    name the same one every time (the error path of FieldMap::try_new)."""
    jobs = []
    fields = ["payee", "note", "category", "commodity"]
    for (n, invalid, sensitive) in INVALID_CLASSES:
        if not sensitive or n > len(fields) or invalid > n:
            continue
        d = os.path.join(base, "tmpl_n%d_i%d" % (n, invalid))
        lines = []
        for i, f in enumerate(fields[:n]):
            if i < invalid:
                lines.append("    %s:\n      template: \"{no_such_key_%d}\"\n" % (f, i + 1))
            else:
                lines.append("    %s:\n      template: \"fixed text %d\"\n" % (f, i + 1))
        if "payee" not in fields[:n]:
            lines.append("    payee: \"Text\"\n")
        cy = ("path: stmt.csv\nencoding: UTF-8\naccount: \"Assets:Src\"\naccount_type: asset\ncommodity: USD\nformat:\n  date: \"%Y-%m-%d\"\n  fields:\n"
              "    date: \"Date\"\n    amount: \"Amount\"\n" + "".join(lines))
        cp = write(d, "config.yml", cy)
        sp = write(d, "stmt.csv", "Date,Text,Amount\n2024-01-05,Shop,-1.00\n")
        jobs.append(("invalid_templates n=%d invalid=%d" % (n, invalid), ["import", "-c", cp, sp]))
    return jobs


def write(d, name, text):
    p = os.path.join(d, name)
    os.makedirs(os.path.dirname(p), exist_ok=True)
    with open(p, "w") as f:
        f.write(text)
    return p


def multi_commodity_ledger(n):
    """An account holding n commodities, a posting whose inferred amount has n commodities, and more."""
    cs = COMMODITIES[:n]
    t = "2024/01/01 fund\n" + "".join("    Assets:Wallet  %d %s\n" % (i + 2, c) for i, c in enumerate(cs)) + "    Equity:Opening\n\n"
    t += "2024/01/02 move\n" + "".join("    Assets:Other  %d %s\n" % (i + 1, c) for i, c in enumerate(cs)) + "    Assets:Wallet\n\n"
    t += "2024/01/03 more\n    Expenses:Misc  1 %s\n    Assets:Wallet\n" % cs[0]
    return t


def failing_assertion_ledger(n):
    cs = COMMODITIES[:n]
    t = "2024/01/01 fund\n" + "".join("    Assets:Wallet  %d %s\n" % (i + 2, c) for i, c in enumerate(cs)) + "    Equity:Opening\n\n"
    t += "2024/01/02 check\n    Assets:Wallet  0 = 0\n    Equity:Opening\n"
    return t


def equal_chains_ledger(n, distinct):
    """n price chains SRC -> Mi -> DST of the same rank (all ledger prices on the same day); rates differ iff distinct > 1."""
    t = ""
    for i in range(n):
        mid = "MID" + "ABCDEFGH"[i]
        r1 = 2 if (distinct > 1 and i % 2 == 1) else 4
        t += "2024/01/01 p%d\n    Assets:A%s  1 SRC @ %d %s\n    Equity:Opening\n\n" % (i, mid, r1, mid)
        t += "2024/01/01 q%d\n    Assets:B%s  1 %s @ 2 DST\n    Equity:Opening\n\n" % (i, mid, mid)
    t += "2024/01/02 hold\n    Assets:Hold  10 SRC\n    Equity:Opening\n"
    return t


def implied_pair_ledger(n):
    cs = COMMODITIES[:max(2, n)]
    t = ""
    for i in range(len(cs) - 1):
        t += "2024/01/0%d swap\n    Assets:Wallet  %d %s\n    Assets:Wallet  -%d %s\n\n" % (i + 1, 3 + i, cs[i], 7 + i, cs[i + 1])
    return t


def camt_fields_case(n, distinct):
    """A rule element with n capturing fields (different captured payees iff distinct > 1)."""
    fields = ["creditor_name", "additional_transaction_info", "remittance_unstructured_info", "additional_entry_info"][:n]
    yaml = "path: stmt.xml\nencoding: UTF-8\naccount: \"Assets:Src\"\naccount_type: asset\ncommodity: CHF\nrewrite:\n  - matcher:\n"
    for f in fields:
        yaml += "      %s: \"(?P<payee>.+)\"\n" % f
    yaml += "    account: Expenses:Shop\n"
    names = ["Party One", "Party Two", "Party Three", "Party Four"]
    val = lambda i: names[i] if distinct > 1 else names[0]
    xml = ("<?xml version=\"1.0\" encoding=\"UTF-8\"?>\n<Document><BkToCstmrStmt><Stmt>\n"
           "<Bal><Tp><CdOrPrtry><Cd>CLBD</Cd></CdOrPrtry></Tp><Amt Ccy=\"CHF\">5</Amt><CdtDbtInd>DBIT</CdtDbtInd></Bal>\n"
           "<Ntry><Amt Ccy=\"CHF\">5</Amt><CdtDbtInd>DBIT</CdtDbtInd><BookgDt><Dt>2024-01-05</Dt></BookgDt><ValDt><Dt>2024-01-05</Dt></ValDt>"
           "<BkTxCd><Domn><Cd>PMNT</Cd><Fmly><Cd>RCDT</Cd><SubFmlyCd>OTHR</SubFmlyCd></Fmly></Domn></BkTxCd><NtryDtls><Btch><NbOfTxs>1</NbOfTxs></Btch>"
           "<TxDtls><Refs><AcctSvcrRef>R1</AcctSvcrRef></Refs><Amt Ccy=\"CHF\">5</Amt><CdtDbtInd>DBIT</CdtDbtInd>"
           "<RltdPties><Cdtr><Nm>%s</Nm></Cdtr></RltdPties><RmtInf><Ustrd>%s</Ustrd></RmtInf><AddtlTxInf>%s</AddtlTxInf></TxDtls></NtryDtls>"
           "<AddtlNtryInf>%s</AddtlNtryInf></Ntry>\n</Stmt></BkToCstmrStmt></Document>\n") % (val(0), val(2), val(1), val(3))
    return yaml, xml


def build_inputs(base, classes, tier):
    """Returns [(class label, [argv after the binary], cwd)]."""
    jobs = []
    now = ["--now", "2024-06-01"]
    for (n, distinct, s_print, s_pick, s_fold, s_first) in classes:
        if n == 0:
            continue
        d = os.path.join(base, "n%d_d%d" % (n, distinct))
        os.makedirs(d, exist_ok=True)
        if s_print or n == 1:
            if distinct == 1:
                p = write(d, "multi.ledger", multi_commodity_ledger(n))
                for args in (["balance", p], ["register", p], ["register", p, "Assets:Wallet"], ["accounts", p],
                             ["balance", p, "--start", "2024-01-02", "--end", "2024-01-03"], ["format", p]):
                    jobs.append(("print_amount n=%d" % n, args))
                p = write(d, "assert.ledger", failing_assertion_ledger(n))
                jobs.append(("error_text n=%d" % n, ["balance", p]))
                if n >= 2:
                    # a transaction that does not balance in n commodities of the same sign: the error shows the residual
                    p = write(d, "unbalanced.ledger", "2024/01/01 t\n" + "".join("    Assets:W%d  %d %s\n" % (i, 100 - 10 * i, c) for i, c in enumerate(COMMODITIES[:n])) + "\n")
                    for cmd in ("balance", "register"):
                        jobs.append(("unbalanced n=%d" % n, [cmd, p]))
                    p = write(d, "unbalanced0.ledger", "2024/01/01 t\n    Assets:W0  100 %s\n" % COMMODITIES[0] + "".join("    Assets:W%d  0 %s\n" % (i, c) for i, c in enumerate(COMMODITIES[1:n], 1)) + "\n")
                    jobs.append(("unbalanced n=%d" % n, ["balance", p]))
                p = write(d, "pair.ledger", implied_pair_ledger(n))
                for c in COMMODITIES[:max(2, n)]:
                    jobs.append(("implied_pair n=%d" % n, ["balance", "-X", c] + now + [p]))
                    jobs.append(("implied_pair n=%d" % n, ["balance", "-X", c, "--historical"] + now + [p]))
                # no rate at all: which commodity the error names must not depend on the walk
                p = write(d, "norate.ledger", "2024/01/01 fund\n" + "".join("    Assets:Wallet  %d %s\n" % (i + 2, c) for i, c in enumerate(COMMODITIES[:n]))
                          + "    Equity:Opening\n\n2024/01/02 other\n    Assets:Q  1 QQQ\n    Equity:Q\n")
                jobs.append(("missing_rate n=%d" % n, ["balance", "-X", "QQQ"] + now + [p]))
                jobs.append(("missing_rate n=%d" % n, ["register", "-X", "QQQ"] + now + [p]) if False else ("missing_rate n=%d" % n, ["balance", "-X", "QQQ", "--historical"] + now + [p]))
                p = write(d, "sum_as_cost.ledger", "2024/01/01 t\n    Assets:A  1 QQQ @ (%s)\n    Equity:Opening\n" % " + ".join("%d %s" % (i + 1, c) for i, c in enumerate(COMMODITIES[:n])))
                jobs.append(("pick_single n=%d" % n, ["balance", p]))
                # ... and a sum whose n commodities all cancel to zero, as a posting amount, a cost and an assertion: if okane
                # takes it for a zero amount, the commodity it shows must not be whichever entry the map yields first
                if n >= 2:
                    zero_sum = " + ".join("%d %s - %d %s" % (i + 20, c, i + 20, c) for i, c in enumerate(COMMODITIES[:n]))
                    p = write(d, "cancel_all.ledger", "2024/01/01 t\n    Assets:A  (%s)\n    Assets:B  5 QQQ\n    Equity:Opening\n" % zero_sum)
                    for cmd in ("balance", "register"):
                        jobs.append(("pick_single n=%d" % n, [cmd, p]))
                    p = write(d, "cancel_all_assert.ledger", "2024/01/01 t\n    Assets:A  5 QQQ = (%s)\n    Equity:Opening\n" % zero_sum)
                    jobs.append(("pick_single n=%d" % n, ["register", p]))
        if n >= 2:
            p = write(d, "chains.ledger", equal_chains_ledger(n, distinct))
            for x in ("DST", "SRC"):
                jobs.append(("equal_chains n=%d distinct=%d" % (n, distinct), ["balance", "-X", x] + now + [p]))
                jobs.append(("equal_chains n=%d distinct=%d" % (n, distinct), ["balance", "-X", x, "--historical"] + now + [p]))
            jobs.append(("equal_chains n=%d distinct=%d" % (n, distinct), ["primitive", "eval", "--date", "2024-03-01", "-X", "DST", "-f", p, "10 SRC"]))
            # a CSV configuration whose header lacks n of the configured labels: the error lists them
            labels = [("payee", "Payee"), ("amount", "Amount"), ("balance", "Balance"), ("note", "Memo")][:min(n, 4)]
            cy = ("path: missing.csv\nencoding: UTF-8\naccount: \"Assets:Src\"\naccount_type: asset\ncommodity: USD\nformat:\n  date: \"%Y-%m-%d\"\n  fields:\n    date: \"Date\"\n"
                  + "".join("    %s: \"%s\"\n" % kv for kv in labels) + ("" if any(k == "payee" for k, _ in labels) else "    payee: \"Date\"\n")
                  + ("" if any(k == "amount" for k, _ in labels) else "    amount: \"Date\"\n"))
            ccp = write(d, "missing_config.yml", cy)
            csp = write(d, "missing.csv", "Date,Other,Another\n2024-01-05,x,y\n")
            jobs.append(("missing_labels n=%d" % n, ["import", "-c", ccp, csp]))
            yaml, xml = camt_fields_case(min(n, 4), distinct)
            cp = write(d, "config.yml", yaml)
            sp = write(d, "stmt.xml", xml)
            jobs.append(("rule_fields n=%d distinct=%d" % (n, distinct), ["import", "-c", cp, sp]))
    return jobs


def corpus_inputs(base, run):
    """Order-insensitive commands on a sample of the other checks' corpora (they must be deterministic as well)."""
    from vlib import tlc_gen, read_records
    jobs = []
    d = os.path.join(base, "corpus")
    os.makedirs(d, exist_ok=True)
    nd, n, st = tlc_gen("MCSyntax.tla", "Syntax_features.cfg", "C13-syntax", workers=2, timeout=600)
    run.add_model(st)
    for i, r in enumerate(read_records(nd)):
        p = write(d, "syn%d.ledger" % i, r["text"])
        jobs.append(("corpus_format", ["format", p]))
        if i % 4 == 0:
            jobs.append(("corpus_balance", ["balance", p]))
            jobs.append(("corpus_accounts", ["accounts", p]))
    return jobs


def run_n(binary, args, n):
    outs = []
    for _ in range(n):
        p = subprocess.run([binary] + args, stdout=subprocess.PIPE, stderr=subprocess.PIPE, timeout=60)
        outs.append((p.returncode, p.stdout, p.stderr))
    return outs


def check(run):
    quick = run.tier == "quick"
    n_runs = 8 if quick else 32
    run.rule = ("for every map shape of spec/HashOrder.tla (0-4 entries; equal or different values) for which a walk in iteration order can differ "
                "between two processes: ledgers whose accounts / inferred amounts / error texts hold that many commodities, implied exchanges, a "
                "multi-commodity sum used as cost, that many equally ranked price chains (same or different rates), a Camt053 rule element with that "
                "many capturing fields; commands balance, register, accounts, format, balance -X (up-to-date and historical), primitive eval, import; "
                "plus format/balance/accounts on the C05 catalogue; each command is run %d times in fresh processes; non-trivial = commands on inputs of a sensitive class" % n_runs)
    run.assumptions += ["the quantifier over hash seeds is discharged by repetition in fresh processes (each draws a new RandomState): an unsorted walk over k >= 2 entries survives N runs with probability <= 2^-(N-1) per input",
                        "only equality across runs is demanded, not a particular order",
                        "`--now` is always given (the default is the wall-clock date)"]
    classes = classes_from_tlc(run)
    base = os.path.join(WORK, "c13-%d" % os.getpid())
    shutil.rmtree(base, ignore_errors=True)
    os.makedirs(base)
    binary = okane_bin()
    jobs = build_inputs(base, classes, run.tier) + invalid_template_inputs(base) + cancelled_pair_inputs(base) + corpus_inputs(base, run)
    by_class = {}
    for label, args in jobs:
        outs = run_n(binary, args, n_runs)
        sensitive = not label.startswith("corpus") and "n=1" not in label
        run.count(hash((label, tuple(args))), [label] if sensitive else [])
        by_class[label.split(" ")[0]] = by_class.get(label.split(" ")[0], 0) + 1
        for o in outs:
            if o[0] < 0:
                run.report("crash_" + label.split(" ")[0], {"class": label, "argv": args, "_mode": "c13"}, {"status": o[0], "stderr": o[2].decode(errors="replace")[-500:]},
                           "crash: `okane %s` died with signal %d" % (" ".join(args), -o[0]))
                break
        expect_ok = not label.startswith(("error_text", "pick_single", "corpus", "missing_rate", "missing_labels", "invalid_templates", "unbalanced", "cancelled_pair")) and not (label.startswith("implied_pair") and "--historical" in args)
        if expect_ok and any(o[0] != 0 for o in outs):
            bad = next(o for o in outs if o[0] != 0)
            raise ToolError("generator defect: `okane %s` (class %s) is expected to succeed but fails: %s" % (" ".join(args), label, bad[2].decode(errors="replace")[-600:]))
        distinct = set(outs)
        if len(distinct) > 1:
            a, b = list(distinct)[:2]
            files = {}
            for x in args:
                if os.path.isfile(x) and os.path.getsize(x) < 20000:
                    files[os.path.basename(x)] = open(x).read()
            run.report(label.split(" ")[0], {"class": label, "argv": [os.path.basename(x) if os.path.isfile(x) else x for x in args], "files": files, "_mode": "c13"},
                       {"runs": n_runs, "distinct_outputs": len(distinct),
                        "output_a": {"status": a[0], "stdout": a[1].decode(errors="replace")[-1500:], "stderr": a[2].decode(errors="replace")[-800:]},
                        "output_b": {"status": b[0], "stdout": b[1].decode(errors="replace")[-1500:], "stderr": b[2].decode(errors="replace")[-800:]}},
                       "%s: `okane %s` gave %d different outputs in %d runs, e.g. %r vs %r" % (
                           label, " ".join(os.path.basename(x) if os.path.isfile(x) else x for x in args), len(distinct), n_runs,
                           (a[1] or a[2]).decode(errors="replace")[-160:], (b[1] or b[2]).decode(errors="replace")[-160:]))
        run.traces += n_runs
    run.extra["commands_by_class"] = by_class
    run.extra["runs_per_command"] = n_runs
    run.sample({"classes_from_HashOrder": [list(c) for c in classes][:6], "example_command": jobs[0][1] if jobs else None})
    shutil.rmtree(base, ignore_errors=True)
    run.exhaustive = False


def replay(path):
    """Re-runs the command of a replay file 32 times."""
    rp = json.load(open(path))
    rec = rp["record"]
    base = os.path.join(WORK, "c13-replay-%d" % os.getpid())
    shutil.rmtree(base, ignore_errors=True)
    os.makedirs(base)
    for name, text in rec.get("files", {}).items():
        write(base, name, text)
    args = [os.path.join(base, x) if x in rec.get("files", {}) else x for x in rec["argv"]]
    outs = run_n(okane_bin(), args, 32)
    shutil.rmtree(base, ignore_errors=True)
    n = len(set(outs))
    print("%d distinct outputs in 32 runs" % n)
    if n > 1:
        print("VIOLATION property=C13 replay=%s" % path)
        return 1
    return 0
