HOOK_COMMITS = []

CLAIMED = {
 "C20": {
  "text": "TLC checks the write-discipline and faithfulness action properties of spec/Golden.tla (helper x file x UPDATE_GOLDEN) on every reachable state of the bounded model; every behaviour of the structured generator configuration (all (state, helper action) pairs of the model) is replayed against the real okane_golden crate in a scratch directory, comparing verdicts and the file's bytes after every step.",
  "note": "Bounded contents (token alphabet {a, é, CR, LF}, length <= 2 quick / 3 thorough). Where the file was changed behind the helper's back the statement is ambiguous and the specification allows either verdict. Trusted: std::fs, the harness' in-process environment handling.",
  "technique": "TLA+ model checking (TLC) + replay of all TLC-enumerated behaviours into the implementation",
 },
}

_PENDING = "check not built yet in this session; the TLA+ design for it is in DESIGN.md §7 and it is not claimed until its quick check runs clean on the unchanged tree"
NOT_APPLICABLE = {p: _PENDING for p in
  ["C01","C02","C03","C04","C05","C06","C07","C08","C09","C10","C11","C12","C13","C14","C15","C16","C17","C18","C19"]}
