HOOK_COMMITS = ["0ac9d15"]

CLAIMED = {
 "C20": {
  "text": "TLC checks the write-discipline and faithfulness action properties of spec/Golden.tla (helper x file x UPDATE_GOLDEN) on every reachable state of the bounded model; every behaviour of the structured generator configuration (all (state, helper action) pairs of the model) is replayed against the real okane_golden crate in a scratch directory, comparing verdicts and the file's bytes after every step.",
  "note": "Bounded contents (token alphabet {a, é, CR, LF}, length <= 2 quick / 3 thorough). Where the file was changed behind the helper's back the statement is ambiguous and the specification allows either verdict. Trusted: std::fs, the harness' in-process environment handling.",
  "technique": "TLA+ model checking (TLC) + replay of all TLC-enumerated behaviours into the implementation",
 },
}

_LEDGER_NOTE = ("Bounded scripts (<=3 postings, 2-3 accounts, 3 commodities, small values); decimal values far inside the 96-bit range; "
                "the specification permits accepting or rejecting an implied exchange; hooks (--cfg okane_verif) log after the state change; "
                "trusted: rust_decimal arithmetic/rounding at the points exercised, annotate-snippets rendering for line extraction.")
_LEDGER_TECH = "TLA+ model checking (TLC) of spec/Ledger.tla + replay of all enumerated behaviours into report::process + TLC trace validation (LedgerTrace.tla) of executions recorded from the hooked code"
CLAIMED.update({
 "C01": {"text": "TLC checks AcceptedBalanced / RejectJustified / NoStuck on every state of the bounded book-keeping model (scripts Plain, Round, CostLot; +Plain4, OmitAssign thorough), every complete behaviour is replayed into okane (verdict, rejected entry, register amounts, balances, no panic), and random ledgers far outside the bound are recorded from the hooked code and validated event by event against the specification.", "note": _LEDGER_NOTE, "technique": _LEDGER_TECH},
 "C02": {"text": "TLC checks AssertionsTrue (every logged assertion re-evaluated on an independent fold of the register in file order) on the bounded model (scripts Assert, Deferred, DeducePrec, Alias); behaviours are replayed into okane comparing verdict, the posting line the diagnostic points at and the computed balance it reports; recorded traces bind the account balance after every posting.", "note": _LEDGER_NOTE + " One recorded finding (assert_after_omitted_same_account).", "technique": _LEDGER_TECH},
 "C03": {"text": "TLC checks AssignExact and the deduced half of AcceptedBalanced (sum of balancing values + deduced = 0 per commodity) on scripts OmitAssign and DeducePrec; behaviours are replayed into okane comparing the inferred posting amounts, all balances and rejections (two unconstrained postings, `= 0` on a multi-commodity account); recorded traces bind deduced amounts and balances after each step.", "note": _LEDGER_NOTE + " The shape `assignment after an omitted posting on the same account in one transaction` is excluded (the two inferred amounts define each other).", "technique": _LEDGER_TECH},
})

_PENDING = "check not built yet in this session; the TLA+ design for it is in DESIGN.md §7 and it is not claimed until its quick check runs clean on the unchanged tree"
NOT_APPLICABLE = {p: _PENDING for p in
  ["C04","C05","C06","C07","C08","C09","C10","C11","C12","C13","C14","C15","C16","C17","C18","C19"]}
