#!/usr/bin/env python3
"""Regenerates MANIFEST.json from the table below (kept in one place so it is always valid)."""
import json, os, sys
ROOT = os.path.dirname(os.path.dirname(os.path.abspath(__file__)))
sys.path.insert(0, os.path.join(ROOT, "lib"))
from manifest_table import CLAIMED, NOT_APPLICABLE, HOOK_COMMITS

BASELINE = "cd /repo && cargo nextest run --workspace --no-fail-fast --tool-config-file pb:/w/lib/nextest.toml --profile pb --test-threads 8 --offline || cargo test --workspace --no-fail-fast --offline"

m = {
    "version": 1,
    "setup_cmd": "cd /verif && ./check setup",
    "hooks": {
        "guard": "okane_verif",
        "enable": "RUSTFLAGS='--cfg okane_verif' via /verif/harness/.cargo/config.toml (the harness crate path-depends on /repo/core, /repo/cli, /repo/golden, so every check rebuilds okane from /repo's working tree with the cfg on)",
        "baseline_off_cmd": "cd /repo && cargo test --workspace --no-fail-fast --offline",
        "source_commits": HOOK_COMMITS,
        "add_only": True,
    },
    "engines": [
        {"name": "tlc", "path": "/usr/local/bin/tlc", "serves_properties": sorted(CLAIMED), "kind_free_text": "TLA+ explicit-state model checker: checks the invariants of spec/*.tla on bounded configurations, enumerates behaviours for replay, validates recorded traces"},
        {"name": "vh", "path": "/verif/harness", "serves_properties": sorted(CLAIMED), "kind_free_text": "Rust conformance harness: replays TLC-generated behaviours into the real okane crates and records traces from the hooked code"},
    ],
    "checks": [],
    "not_applicable": [{"property_id": k, "reason": v} for k, v in sorted(NOT_APPLICABLE.items())],
    "notes": "Model-based verification with explicit TLA+ specifications (spec/), bound to the code by behaviour replay and trace validation. See DESIGN.md.",
}
for pid in sorted(CLAIMED):
    c = CLAIMED[pid]
    m["checks"].append({
        "property_id": pid,
        "quick_cmd": "./check %s quick" % pid,
        "thorough_cmd": "./check %s thorough" % pid,
        "evidence_file": "evidence/%s.json" % pid,
        "replay_cmd_template": "./check %s --replay {path}" % pid,
        "engine": "tlc+vh",
        "level_claimed": {"category": "model_checking", "text": c["text"], "design_ref": c.get("ref", "DESIGN.md §7 " + pid)},
        "level_note": c["note"],
        "technique": c["technique"],
    })
json.dump(m, open(os.path.join(ROOT, "MANIFEST.json"), "w"), indent=1)
print("MANIFEST.json: %d checks, %d not_applicable" % (len(m["checks"]), len(m["not_applicable"])))
