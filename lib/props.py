"""Per-property check procedures."""
import shutil, json, os, re, subprocess, sys, glob
from vlib import (Run, ToolError, log, tlc_check, tlc_gen, run_vh, read_records, build_harness,
                  SPEC, MC, WORK, ROOT, VH)

CHECKS = {}


def check(pid):
    def deco(f):
        CHECKS[pid] = f
        return f
    return deco


def setup():
    build_harness()
    env = dict(os.environ, JAVA_TOOL_OPTIONS="-DTLA-Library=%s" % SPEC)
    bad = 0
    for f in sorted(glob.glob(os.path.join(SPEC, "*.tla")) + glob.glob(os.path.join(MC, "*.tla"))):
        p = subprocess.run(["tla-sany", os.path.basename(f)], cwd=os.path.dirname(f), env=env,
                           stdout=subprocess.PIPE, stderr=subprocess.STDOUT, text=True)
        if p.returncode != 0 or "error" in p.stdout.lower().replace("errors: 0", ""):
            if "Semantic errors" in p.stdout or "Fatal errors" in p.stdout or "Could not" in p.stdout or p.returncode != 0:
                print("SANY FAILED:", f)
                print(p.stdout[-1500:])
                bad += 1
    print("setup: harness built, %s" % ("all modules parse" if not bad else "%d modules failed" % bad))
    return 0 if not bad else 2


def replay(pid, path):
    """Re-runs one replay file through the harness mode that produced it."""
    with open(path) as f:
        rp = json.load(f)
    rec = rp["record"]
    if rec.get("_mode") == "c13":
        import determinism
        return determinism.replay(path)
    mode = rec.get("_mode") or MODES.get(pid)
    if not mode:
        print("no replay mode for", pid)
        return 2
    build_harness()
    if mode == "loader-trace":
        tmp = os.path.join(WORK, "replay-%d.ndjson" % os.getpid())
        with open(tmp, "w") as f:
            f.write(json.dumps(rec) + "\n")
        bad, _st = validate_loader_trace(tmp, os.path.join(WORK, "replay-%d-trace.ndjson" % os.getpid()), stride=1)
        os.remove(tmp)
        if bad:
            print(json.dumps(bad[0][1], indent=1, ensure_ascii=False))
            print("VIOLATION property=%s replay=%s" % (pid, path))
            return 1
        print("trace accepted")
        return 0
    tmp = os.path.join(WORK, "replay-%d.ndjson" % os.getpid())
    with open(tmp, "w") as f:
        f.write(json.dumps(rec) + "\n")
    res = run_vh(mode, tmp)
    print(json.dumps(res[0], indent=1, ensure_ascii=False))
    os.remove(tmp)
    if not res[0].get("ok"):
        print("VIOLATION property=%s replay=%s" % (pid, path))
        return 1
    return 0


MODES = {"C20": "golden"}


def feed(run, mode, nd, classify=None, sig_of=None, budget_ms=5000, key=None, env_extra=None, keep=None, nontrivial=None):
    """Replays every behaviour of `nd` through harness mode `mode`; reports disagreements."""
    if keep:
        recs = [r for r in read_records(nd) if keep(r)]
        with open(nd, "w") as f:
            for r in recs:
                f.write(json.dumps(r) + "\n")
    recs = read_records(nd)
    res = run_vh(mode, nd, budget_ms=budget_ms, env_extra=env_extra)
    for i, (rec, r) in enumerate(zip(recs, res)):
        if r.get("skipped"):
            run.extra["skipped_after_repeated_aborts"] = run.extra.get("skipped_after_repeated_aborts", 0) + 1
            continue
        classes = r.get("classes") or (classify(rec) if classify else [])
        if nontrivial is not None:
            classes = classes if nontrivial(rec, r) else []
        k = key(rec) if key else json.dumps(rec, sort_keys=True)
        run.count(hash(k), classes)
        if i % max(1, len(recs) // 3) == 0:
            run.sample({"behaviour": rec, "observed": {k2: v for k2, v in r.items() if k2 not in ("i",)}})
        if not r.get("ok"):
            rec2 = dict(rec)
            rec2["_mode"] = mode
            for v in r.get("viol", [{"kind": "unknown", "msg": ""}]):
                sig = sig_of(rec, r, v) if sig_of else v.get("kind")
                run.report(sig, rec2, r, "%s: %s" % (v.get("kind"), v.get("msg")))
                break
    run.traces += len(recs)
    return recs, res


# ------------------------------------------------------------------ C20
@check("C20")
def c20(run):
    run.rule = ("every behaviour init(file,env); new; [external write|delete|nothing]; setenv; assert(got)|new "
                "[; assert(got2) in thorough] of spec/Golden.tla, contents = all sequences over the token alphabet up "
                "to the length bound; non-trivial = behaviours that reach an assert")
    run.assumptions += ["the harness sets UPDATE_GOLDEN in-process and is single-threaded",
                        "file system is a local temporary directory under /verif/.work"]
    quick = run.tier == "quick"
    run.add_model(tlc_check("MCGolden.tla", "Golden_small.cfg" if quick else "Golden_small_t.cfg", workers=8))
    nd, n, st = tlc_gen("MCGolden.tla", "Golden_gen.cfg" if quick else "Golden_gen_t.cfg", "c20-gen", workers=1,
                        timeout=1500)
    run.add_model(st)
    feed(run, "golden", nd)
    run.exhaustive = True


# ------------------------------------------------------------------ Ledger.tla scenarios (C01-C04, C12)
def sig_ledger(rec, res, v):
    """Signature of a disagreement on a Ledger behaviour (see known_findings.json)."""
    return v.get("kind")


def ledger_scenarios(run, scenarios, workers=8, mode="ledger", keep=None):
    for sc in scenarios:
        # AliasT (5.9M states, more behaviours than the drivers can hold) is walked at random; the simulator also checks - and so
        # emits - every completed successor of the states it passes through
        sim = {"AliasT": {"num": 40000, "depth": 60}}.get(sc)
        nd, n, st = tlc_gen("MCLedger.tla", "Ledger_%s.cfg" % sc, "%s-%s" % (run.pid, sc), workers=1 if sim else workers, timeout=1700,
                            simulate=sim, seed=run.seed if sim else None)
        st["scenario"] = sc
        run.add_model(st)
        feed(run, mode, nd, sig_of=sig_ledger, keep=keep)


LEDGER_ASSUME = [
    "decimal values stay far inside rust_decimal's 96-bit range (TLC integers are 32-bit)",
    "the specification permits both acceptance and rejection of an implied exchange (opposite-sign pair); a rejection by okane there is not reported",
    "FakeFileSystem stands for the file system; diagnostics are rendered with Renderer::plain()",
]


@check("C01")
def c01(run):
    run.rule = ("all transactions of the scenario scripts of spec/mc/MCLedger.tla (Plain: <=3 postings x 2 accounts x "
                "{X,Y,Z} x {-2..2, bare 0, omitted}, each behaviour replayed a second time with every amount x 10^15; Round: declared precision none/0/1 with half-unit boundaries; CostLot: "
                "cost/lot rate/total incl. zero, same-commodity and bare rates); non-trivial = behaviour has an omitted/assigned "
                "posting, a cost/lot, a declared precision, a rejection or an implied exchange (classes computed by the harness)")
    run.assumptions += LEDGER_ASSUME
    # the algebra behind replaying Plain with every amount x 10^15 (spec/Homogeneity.tla, an ASSUME evaluated by TLC)
    run.add_model(tlc_check("../Homogeneity.tla", "Homogeneity.cfg", workers=2, timeout=600, coverage=False))
    sc = ["Plain", "Round", "CostLot"]
    if run.tier == "thorough":
        sc += ["Plain4", "OmitAssign"]
    ledger_scenarios(run, sc)
    ledger_traces(run)
    run.exhaustive = True


@check("C02")
def c02(run):
    run.rule = ("scripts Assert (two transactions, assertions on any posting incl. two on one account, after assigned/omitted "
                "postings, multi-commodity account, `= 0`), Deferred (assertion on the account of an earlier omitted posting) and "
                "Alias of spec/mc/MCLedger.tla; non-trivial as for C01")
    run.assumptions += LEDGER_ASSUME
    sc = ["Assert", "Deferred", "DeducePrec", "Alias"] if run.tier == "quick" else ["AssertT", "Deferred", "DeducePrec", "Alias", "OmitAssign"]
    ledger_scenarios(run, sc)
    ledger_traces(run)
    run.exhaustive = True


@check("C03")
def c03(run):
    run.rule = ("script OmitAssign: funding transaction giving account A nothing / one / two commodities, then a transaction with "
                "an omitted or assigned posting (`= v C`, `= 0 C`, bare `= 0`) at every position among <=3 postings with costs; script CostLot: "
                "a posting with every combination of cost and lot price (rate / total, either commodity, zero and negative) next to an omitted posting; "
                "assignment after an omitted posting on the same account excluded (ill-defined); non-trivial as for C01")
    run.assumptions += LEDGER_ASSUME
    # CostLot: the omitted posting absorbs the *balancing values* of the others - lot price before cost before the amount itself -
    # for purchases and sales alike (round 9, C03-g valued a purchase written `{lot} @ cost` at its cost)
    sc = ["OmitAssign", "DeducePrec", "CostLot"] if run.tier == "quick" else ["OmitAssign", "DeducePrec", "CostLot", "AssertT", "Plain4"]
    ledger_scenarios(run, sc)
    ledger_traces(run)
    run.exhaustive = True


def ledger_traces(run, runs=None):
    """Binding B: random ledgers -> hooked okane -> recorded events -> validated by LedgerTrace.tla."""
    from vlib import run_tlc
    runs = runs or (250 if run.tier == "quick" else 4000)
    tr = os.path.join(WORK, "%s-trace.ndjson" % run.pid)
    inp = os.path.join(WORK, "%s-trace-inputs.ndjson" % run.pid)
    p = subprocess.run([VH, "ledger-trace", "--seed", str(run.seed), "--runs", str(runs), "--out", tr, "--inputs", inp],
                       stdout=subprocess.PIPE, stderr=subprocess.PIPE, text=True)
    if p.returncode != 0:
        sys.stderr.write(p.stderr[-2000:])
        raise ToolError("trace recording failed")
    inputs = read_records(inp)
    for r in inputs:
        if r.get("panic"):
            run.report("panic", {"input": r["input"], "_mode": "ledger-trace"}, {"panic": r["panic"]},
                       "panic: okane panicked while processing a random ledger: %s" % r["panic"][:300])
    events = [l for l in open(tr)]
    if len(events) < 5 * len(inputs):
        raise ToolError("trace recording is vacuous: %d events for %d runs" % (len(events), len(inputs)))
    offset = 0           # events already dealt with
    validated_runs = 0
    total_states = 0
    rounds = 0
    while offset < len(events) and rounds < 6:
        rounds += 1
        part = os.path.join(WORK, "%s-trace-part.ndjson" % run.pid)
        with open(part, "w") as f:
            f.writelines(events[offset:])
        rc, out, secs = run_tlc("../LedgerTrace.tla", "LedgerTrace.cfg", workers=1, timeout=1200,
                                env_extra={"TRACE": part},
                                java_extra="-Xss1g -Dtlc2.tool.queue.IStateQueue=StateDeque")
        from vlib import parse_stats
        st = parse_stats(out) or {"distinct": 0, "generated": 0}
        total_states += st["distinct"]
        m = re.search(r'TRACE-REJECTED at event",\s*(\d+)', out)
        if "No error has been found" in out and not m:
            validated_runs += sum(1 for r in inputs if r["first_event"] > offset)
            offset = len(events)
            break
        if not m:
            sys.stderr.write(out[-3000:])
            raise ToolError("trace validation failed without a rejected event (an invariant of the specification was violated on a recorded trace, or TLC failed)")
        bad = offset + int(m.group(1))          # 1-based index of the first unmatched event
        culprit = [r for r in inputs if r["first_event"] <= bad <= r["last_event"]]
        if not culprit:
            raise ToolError("cannot attribute rejected event %d" % bad)
        c = culprit[0]
        validated_runs += sum(1 for r in inputs if offset < r["first_event"] < c["first_event"])
        ev = json.loads(events[bad - 1])
        run.report("trace_" + ev.get("ev", "?"),
                   {"input": c["input"], "_mode": "ledger-trace", "run": c["run"], "seed": run.seed},
                   {"first_unmatched_event": ev, "events_of_run": [json.loads(x) for x in events[c["first_event"] - 1:c["last_event"]]][:200]},
                   "trace rejected: event %d of run %d (%s) is not a step of Ledger.tla from the state reached" % (bad - c["first_event"] + 1, c["run"], ev.get("ev")))
        offset = c["last_event"]
    run.add_model({"module": "LedgerTrace.tla", "cfg": "LedgerTrace.cfg", "states": total_states, "transitions": total_states,
                   "seconds": 0, "traces": validated_runs, "events": len(events)})
    run.traces += validated_runs
    run.evaluations += len(inputs)
    for r in inputs[:len(inputs)]:
        run.nontrivial.add(("trace", r["run"]))
    run.extra["trace_runs_recorded"] = len(inputs)
    run.extra["trace_events"] = len(events)
    if inputs:
        run.sample({"trace_run_input": inputs[0]["input"][:3], "events": [json.loads(x) for x in events[:4]]})


MODES.update({"C01": "ledger", "C02": "ledger", "C03": "ledger"})


def validate_loader_trace(nd, tr, stride=1, limit=None):
    """Binding B for Loader.tla: records the loader's own events on the file trees of `nd` (every `stride`-th behaviour, on both
    file systems) and validates them against spec/LoaderTrace.tla.  Returns ([(record index, detail)], stats)."""
    from vlib import run_tlc, parse_stats
    cmd = [VH, "loader-trace", "--in", nd, "--out", tr, "--stride", str(stride)] + (["--limit", str(limit)] if limit else [])
    p = subprocess.run(cmd, stdout=subprocess.PIPE, stderr=subprocess.PIPE, text=True)
    if p.returncode != 0:
        sys.stderr.write(p.stderr[-2000:])
        raise ToolError("loader trace recording failed")
    info = json.loads(p.stdout.strip().splitlines()[-1])
    events = [l for l in open(tr)]
    starts = [i for i, l in enumerate(events) if l.startswith('{"ev":"fs"')]      # 0-based indices of the runs' first events
    bad = []
    offset = 0
    states = 0
    rounds = 0
    while offset < len(events) and rounds < 6:
        rounds += 1
        part = tr + ".part"
        with open(part, "w") as f:
            f.writelines(events[offset:])
        rc, out, secs = run_tlc("MCLoaderTrace.tla", "LoaderTrace.cfg", workers=1, timeout=1200, env_extra={"TRACE": part},
                                java_extra="-Xss1g -Xmx6g -Dtlc2.tool.queue.IStateQueue=StateDeque")
        os.remove(part)
        st = parse_stats(out) or {"distinct": 0, "generated": 0}
        states += st["distinct"]
        m = re.search(r'TRACE-REJECTED at event",\s*(\d+)', out)
        if "No error has been found" in out and not m:
            break
        if not m:
            sys.stderr.write(out[-3000:])
            raise ToolError("loader trace validation failed without a rejected event (an invariant of Loader.tla is violated on a recorded run, or TLC failed)")
        k = offset + int(m.group(1)) - 1                       # 0-based index of the first unmatched event
        first = max(x for x in starts if x <= k)
        nxt = min([x for x in starts if x > k] + [len(events)])
        head = json.loads(events[first])
        bad.append((head["record"], {"first_unmatched_event": json.loads(events[k]), "file_system": head["on"],
                                     "events_of_run": [json.loads(x) for x in events[first + 1:nxt]][:120]}))
        offset = nxt
    return bad, {"runs": info["runs"] - len(bad), "events": len(events), "states": states}


def loader_traces(run, name, nd, stride):
    recs = read_records(nd)
    bad, st = validate_loader_trace(nd, os.path.join(WORK, "%s-%s-ltrace.ndjson" % (run.pid, name)), stride=stride)
    for idx, detail in bad:
        rec = dict(recs[idx]); rec["_mode"] = "loader-trace"
        ev = detail["first_unmatched_event"]
        run.report("trace_" + ev.get("ev", "?"), rec, detail,
                   "loader trace rejected (%s file system): event %s is not a step of Loader.tla from the state reached" % (detail["file_system"], json.dumps(ev)[:300]))
    run.add_model({"module": "MCLoaderTrace.tla", "cfg": "LoaderTrace.cfg", "scenario": name, "states": st["states"], "transitions": st["states"],
                   "seconds": 0, "traces": st["runs"], "events": st["events"]})
    run.traces += st["runs"]
    run.extra["loader_trace_runs"] = run.extra.get("loader_trace_runs", 0) + st["runs"]
    run.extra["loader_trace_events"] = run.extra.get("loader_trace_events", 0) + st["events"]


def viseca_traces(run, name, nd, stride):
    """Binding B for ImportViseca.tla: the statement reader's own events (hooked code) on the statements of `nd`, validated
    against spec/ImportVisecaTrace.tla; a rejected run is reported with the first event that is no step of the specification."""
    from vlib import run_tlc, parse_stats
    recs = read_records(nd)
    tr = os.path.join(WORK, "%s-%s-vtrace.ndjson" % (run.pid, name))
    p = subprocess.run([VH, "viseca-trace", "--in", nd, "--out", tr, "--stride", str(stride)], stdout=subprocess.PIPE, stderr=subprocess.PIPE, text=True)
    if p.returncode != 0:
        sys.stderr.write(p.stderr[-2000:])
        raise ToolError("viseca trace recording failed")
    info = json.loads(p.stdout.strip().splitlines()[-1])
    if info["hook_events"] == 0 and info["runs"] > 0:
        raise ToolError("vacuous: the statement reader emitted no event (is okane built with --cfg okane_verif and the hook present?)")
    events = [l for l in open(tr)]
    starts = [i for i, l in enumerate(events) if l.startswith('{"ev":"stmt"')]
    offset, states, rounds, bad = 0, 0, 0, 0
    while offset < len(events) and rounds < 6:
        rounds += 1
        part = tr + ".part"
        with open(part, "w") as f:
            f.writelines(events[offset:])
        rc, out, secs = run_tlc("MCImportVisecaTrace.tla", "ImportVisecaTrace.cfg", workers=1, timeout=1200, env_extra={"TRACE": part},
                                java_extra="-Xss1g -Xmx6g -Dtlc2.tool.queue.IStateQueue=StateDeque")
        os.remove(part)
        st = parse_stats(out) or {"distinct": 0, "generated": 0}
        states += st["distinct"]
        m = re.search(r'TRACE-REJECTED at event",\s*(\d+)', out)
        if "No error has been found" in out and not m:
            break
        if not m:
            sys.stderr.write(out[-3000:])
            raise ToolError("viseca trace validation failed without a rejected event (an invariant of ImportViseca.tla is violated on a recorded run, or TLC failed)")
        k = offset + int(m.group(1)) - 1
        first = max(x for x in starts if x <= k)
        nxt = min([x for x in starts if x > k] + [len(events)])
        head = json.loads(events[first])
        ev = json.loads(events[k])
        rec = dict(recs[head["record"]]); rec["_mode"] = "viseca-trace"
        run.report("trace_" + ev.get("ev", "?"), rec, {"first_unmatched_event": ev, "events_of_run": [json.loads(x) for x in events[first + 1:nxt]][:80]},
                   "statement reader trace rejected: event %s is not a step of ImportViseca.tla from the state reached" % json.dumps(ev)[:300])
        bad += 1
        offset = nxt
    run.add_model({"module": "MCImportVisecaTrace.tla", "cfg": "ImportVisecaTrace.cfg", "scenario": name, "states": states, "transitions": states,
                   "seconds": 0, "traces": info["runs"] - bad, "events": len(events)})
    run.traces += info["runs"] - bad
    run.extra["viseca_trace_runs"] = run.extra.get("viseca_trace_runs", 0) + info["runs"] - bad
    run.extra["viseca_trace_events"] = run.extra.get("viseca_trace_events", 0) + len(events)


@check("C04")
def c04(run):
    run.rule = ("script Dates of spec/mc/MCLedger.tla: three transactions, each dated 1..3 in ANY file order, optional declared "
                "precision, inferred amounts, a fractional amount that rounds away; every (start, end) pair over dates 0..4 and "
                "unbounded is queried; non-trivial = several distinct dates or non-chronological file order")
    run.assumptions += LEDGER_ASSUME + ["the unbounded query is compared unrounded (that is what the whole-history report shows); every bounded range is compared after rounding to declared precision"]
    nd, n, st = tlc_gen("MCLedger.tla", "Ledger_Dates.cfg" if run.tier == "quick" else "Ledger_DatesT.cfg", "C04-Dates", workers=8, timeout=1700)
    run.add_model(st)
    feed(run, "report", nd)
    run.exhaustive = True


MODES["C04"] = "report"


@check("C09")
def c09(run):
    run.rule = ("price events of spec/mc/MCPrice.tla: all sequences of <=2 events over 3 pairs x 3 dates x 3 rates x {ledger, db} "
                "(ABC2), 3 events over a reduced catalogue (ABC3), and the diamond A-B-D / A-C-D with every date assignment; every "
                "(from, to, day) query over days 0..5; non-trivial = >=2 events, a tie between chains, or database and ledger prices mixed")
    run.assumptions += ["rates are 2^a*5^b so products and reciprocals are exact in Decimal",
                        "where several chains are equally ranked, or the staleness of a multi-step chain can be aggregated as maximum or as sum, any admissible rate is accepted",
                        "ledger events are realised as cost (@), total (@@), lot price and implied exchange in rotation"]
    scs = ["ABC2", "ABC3", "Diamond"]
    for sc in scs:
        nd, n, st = tlc_gen("MCPrice.tla", "Price_%s.cfg" % sc, "C09-%s" % sc, workers=8, timeout=1700)
        st["scenario"] = sc
        run.add_model(st)
        feed(run, "price", nd)
    if run.tier == "thorough":
        nd, n, st = tlc_gen("MCPrice.tla", "Price_ABCD.cfg", "C09-ABCD", simulate={"num": 20000, "depth": 8}, seed=run.seed, timeout=1700)
        st["scenario"] = "ABCD (simulation)"
        run.add_model(st)
        feed(run, "price", nd)
    run.exhaustive = run.tier == "quick"


@check("C12")
def c12(run):
    run.rule = ("script Alias of spec/mc/MCLedger.tla: account/commodity declarations with aliases (including conflicting ones) in every "
                "position among two transactions that use canonical names and aliases in postings, amounts, costs and assertions; each "
                "accepted behaviour is also run with every alias replaced by its canonical name (two-run product check); query side (Ledger.tla Lookup): "
                "every name of the final intern tables is asked through ReportContext::account / ::commodity and "
                "Ledger::eval(\"1 <name>\") and must answer with the specification's canonical name")
    run.assumptions += LEDGER_ASSUME + ["an alias declared for two canonical names silently keeps the first (the property is silent)",
                                        "the register's account filter compares the written name (it is documented to become a pattern); filtering by an alias is outside the claim",
                                        "`okane accounts` is outside the claim (it lists names without processing declarations)"]
    ledger_scenarios(run, ["Alias"] if run.tier == "quick" else ["Alias", "AliasT"], mode="ledger-alias")
    ledger_traces(run)
    run.exhaustive = True


MODES.update({"C09": "price", "C12": "ledger-alias"})


@check("C11")
def c11(run):
    run.rule = ("spec/Loader.tla: (arb) every file system over three files (root, sibling, one in a sub-directory) whose contents are <=2 items "
                "(entry or include: hit, miss, self, parent, glob); (glob) every subset of a nine-file universe with dot-files, another extension, "
                "a longer name and two directories, the root including one of nine glob patterns; (split) every tree obtained from a flat "
                "five-entry ledger by <=2 cuts (literal, via .., via glob); non-trivial = has an include")
    run.assumptions += ["entries are identified by the Debug rendering of the parsed syntax tree",
                        "a pattern whose last component could match a directory name is not generated",
                        "an include line moves with a cut only into the same directory (paths are relative to the including file)",
                        "a cyclic include must end in an error (any LoadError); a missing root or an include that matches nothing must be an I/O NotFound error"]
    quick = run.tier == "quick"
    run.add_model(tlc_check("MCLoader.tla", "Loader_ArbLive.cfg", workers=4))
    scs = [("glob", "Loader_Glob.cfg"), ("split", "Loader_Split.cfg" if quick else "Loader_SplitT.cfg"), ("arb", "Loader_Arb.cfg")]
    if not quick:
        scs.append(("arbT", "Loader_ArbT.cfg"))
    for sc, cfg in scs:
        nd, n, st = tlc_gen("MCLoader.tla", cfg, "C11-%s" % sc, workers=8, timeout=2400, dedup=True)
        st["scenario"] = sc
        run.add_model(st)
        recs, res = feed(run, "loader", nd, key=lambda r: json.dumps([r["fs"], r["expect"]], sort_keys=True))
        # binding B: the loader's own events on a sample of these trees, validated step by step against LoaderTrace.tla
        loader_traces(run, sc, nd, {"glob": 2, "split": 2, "arb": 25, "arbT": 60}[sc] if quick else {"glob": 1, "split": 1, "arb": 4, "arbT": 12}[sc])
        if sc == "glob":
            # vacuity guard: every glob pattern of the scenario must have matched something in some behaviour
            hits = {}
            for r in recs:
                root = ["".join(c) for c in r["root"]]
                for f in r["fs"]:
                    for it in f["items"]:
                        if it["k"] == "inc":
                            pat = "/".join("".join(c) for c in it["pat"]["comps"])
                            other = [d for d in r["expect"]["delivered"] if ["".join(c) for c in d["path"]] != root]
                            hits[pat] = hits.get(pat, 0) + (1 if other else 0)
            run.extra["glob_pattern_hits"] = hits
            dead = [p for p, n in hits.items() if n == 0]
            if dead:
                raise ToolError("glob patterns that never match anything in the scenario (vacuous): %s" % dead)
    run.exhaustive = True


MODES["C11"] = "loader"


@check("C10")
def c10(run):
    run.rule = ("script Conv of spec/mc/MCConvert.tla: dated ledger with costs, lot price, total cost and an implied exchange over "
                "commodities X, Y, T, optional declared precision on T or X, crossed with four price-database contents; queries: targets "
                "{T, X} x {historical, up-to-date at day 1/2/4} x six date ranges; non-trivial = every behaviour (all convert)")
    run.assumptions += LEDGER_ASSUME + ["all amounts and rates are 2^a*5^b so conversion is exact",
                                        "a target commodity that occurs nowhere is outside the claim",
                                        "zero-valued entries are avoided (whether a zero amount needs a rate is not specified)"]
    nd, n, st = tlc_gen("MCConvert.tla", "Convert_Conv.cfg" if run.tier == "quick" else "Convert_ConvT.cfg", "C10-Conv", workers=8, timeout=1700)
    run.add_model(st)
    feed(run, "conv", nd)
    run.exhaustive = True


MODES["C10"] = "conv"


# ------------------------------------------------------------------ C07
LIT_ALPHABET = ["0", "1", "7", ",", ".", "-"]


def literal_space(run, cfg, alphabet, maxlen, name, parts=12, position_every=97):
    """Accept set from TLC, complement enumerated by the harness."""
    nd, n, st = tlc_gen("MCLiteral.tla", cfg, name, workers=8, timeout=3000)
    st["scenario"] = "all strings over %s up to length %d" % ("".join(alphabet), maxlen)
    run.add_model(st)
    recs = [{"alphabet": alphabet, "maxlen": maxlen, "accept_file": nd, "part": k, "parts": parts,
             "position_every": position_every, "_mode": "literal-space"} for k in range(parts)]
    sp = os.path.join(WORK, name + "-space.ndjson")
    with open(sp, "w") as f:
        for r in recs:
            f.write(json.dumps(r) + "\n")
    res = run_vh("literal-space", sp, budget_ms=1500000, jobs=parts)
    strings = wellformed = seen = inpos = 0
    for rec, r in zip(recs, res):
        if r.get("fatal"):
            run.report("fatal_" + r["fatal"], rec, r, "harness process %s while enumerating the literal space" % r["fatal"])
            continue
        o = r["observed"]
        strings += o["strings"]; wellformed += o["wellformed"]; seen += o["accept_records_seen"]; inpos += o["in_position"]
        for v in r.get("viol", []):
            run.report(v["kind"], dict(rec, example=v["msg"]), {"viol": v, "violations_by_kind": o["violations_by_kind"]}, "%s: %s" % (v["kind"], v["msg"]))
    if seen != n:
        raise ToolError("the harness met %d of the %d strings emitted by the specification: the two enumerations of the space differ" % (seen, n))
    run.evaluations += strings
    for k in range(wellformed):
        run.nontrivial.add((name, k))
    run.traces += strings
    run.extra.setdefault("spaces", []).append({"alphabet": "".join(alphabet), "maxlen": maxlen, "strings": strings,
                                               "wellformed": wellformed, "checked_in_every_position": inpos})
    run.sample({"space": st["scenario"], "strings": strings, "wellformed_per_specification": wellformed})


@check("C07")
def c07(run):
    run.rule = ("spec/Literal.tla: every string over {0,1,7,',','.','-'} up to length 8 (thorough: also {0,1,',','.','-'} up to 10); the "
                "specification emits the well-formed ones with mantissa digits, scale, format and canonical print, the harness enumerates "
                "the whole space and expects rejection of everything else; every 97th string is also placed in each syntactic position "
                "(posting amount, cost, total cost, lot price, assertion, assignment, format directive, parenthesised, eval argument); "
                "long literals (20-46 characters) hugging 2^96 and the 28-place limit come from TLC simulation; non-trivial = well-formed strings")
    run.assumptions += ["a literal without integer digits (`.5`) may be accepted or rejected (neither in the documented grammar nor excluded by the statement); if accepted its value must be right",
                        "printing may differ from the specification's canonical text as long as it reads back as the same mantissa, scale and (where there are thousands) grouping",
                        "the sign of zero is not compared"]
    quick = run.tier == "quick"
    run.add_model(tlc_check("MCLiteral.tla", "Literal_small.cfg", workers=8, timeout=1500))
    literal_space(run, "Literal_gen.cfg", LIT_ALPHABET, 8, "C07-gen")
    if not quick:
        run.add_model(tlc_check("MCLiteral.tla", "Literal_smallT.cfg", workers=8, timeout=3000))
        literal_space(run, "Literal_genT.cfg", ["0", "1", ",", ".", "-"], 10, "C07-genT", position_every=197)
    nd, n, st = tlc_gen("MCLiteral.tla", "Literal_long.cfg", "C07-long", simulate={"num": 400 if quick else 4000, "depth": 48},
                        seed=run.seed, timeout=1700)
    st["scenario"] = "long literals (simulation)"
    run.add_model(st)
    feed(run, "literal", nd, key=lambda r: "".join(r["s"]))
    run.exhaustive = True


MODES["C07"] = "literal"


# ------------------------------------------------------------------ C08
@check("C08")
def c08(run):
    run.rule = ("spec/Expr.tla: every sentence of the documented expression grammar with <=2 binary operators over ten operands "
                "(0, 2, 0.5, 1 X, 2 X, 0 X, 4 Y, 1 Y, -2, -1 X) plus one operand replaced by a (possibly negated) parenthesised "
                "one-operator sub-expression (thorough: 3 operators, two levels of nesting); each in two spacing styles, evaluated by "
                "Ledger::eval and used as posting amount, assigned balance, cost rate, total cost and lot price; non-trivial = at least one operator")
    run.assumptions += ["number / commodity and commodity / commodity are not classified by the statement: only absence of a crash is checked for sentences containing them",
                        "an amount with several commodities of which at most one is non-zero may be accepted or rejected where a single amount is required",
                        "a bare-number result of `eval` may be reported or rejected (the API returns an amount)",
                        "operands and divisors are of the form 2^a*5^b so Decimal division is exact; results are compared numerically (scale is not part of C08)",
                        "binary minus directly after a bare number is always written with spaces (the `1-2` spelling belongs to C05)"]
    cfg = "Expr_quick.cfg" if run.tier == "quick" else "Expr_thorough.cfg"
    nd, n, st = tlc_gen("MCExpr.tla", cfg, "C08-gen", workers=8, timeout=3000, dedup=True)
    run.add_model(st)
    recs, res = feed(run, "expr", nd, key=lambda r: r["spaced"])
    if run.tier == "thorough":
        nd, n, st = tlc_gen("MCExpr.tla", "Expr_quick.cfg", "C08-gen-q", workers=8, timeout=3000, dedup=True)
        run.add_model(st)
        feed(run, "expr", nd, key=lambda r: r["spaced"])
    # vacuity guard: the bound must contain sentences where precedence and associativity matter
    cls = {}
    for r in res:
        for c in r.get("classes", []):
            cls[c] = cls.get(c, 0) + 1
    run.extra["classes"] = cls
    for need in ("value_comm", "value_num", "value_err", "amount_ok", "cost_ok", "amount_either"):
        if not cls.get(need):
            raise ToolError("no sentence of class %s in the bound (vacuous)" % need)
    run.exhaustive = True


MODES["C08"] = "expr"


# ------------------------------------------------------------------ C05 / C19 (Syntax.tla)
def syntax_corpus(run, scenarios, simulate=None):
    """Generates the texts of the given Syntax.tla scenarios and replays them; returns (records, results)."""
    all_recs, all_res = [], []
    for sc in scenarios:
        nd, n, st = tlc_gen("MCSyntax.tla", "Syntax_%s.cfg" % sc, "%s-%s" % (run.pid, sc), workers=4, timeout=1700, dedup=True)
        st["scenario"] = sc
        run.add_model(st)
        recs, res = feed(run, "syntax", nd, key=lambda r: r["text"], sig_of=lambda rec, r, v: v.get("kind"))
        all_recs += recs
        all_res += res
    if simulate:
        nd, n, st = tlc_gen("MCSyntax.tla", "Syntax_random.cfg", "%s-random" % run.pid, simulate=simulate, seed=run.seed, timeout=1700)
        st["scenario"] = "random (simulation)"
        run.add_model(st)
        recs, res = feed(run, "syntax", nd, key=lambda r: r["text"], keep=lambda r: r["expect"], sig_of=lambda rec, r, v: v.get("kind"))
        all_recs += recs
        all_res += res
    # RenderInjective on the emitted corpus: one text never carries two different abstract entry lists
    seen = {}
    for r in all_recs:
        e = json.dumps(r["expect"], sort_keys=True)
        if seen.setdefault(r["text"], e) != e:
            raise ToolError("generator defect: the text %r is a rendering of two different entry lists" % r["text"][:200])
    return all_recs, all_res


SYNTAX_ASSUME = [
    "texts are renderings of spec/Syntax.tla's abstract entries under a style record that picks one alternative wherever doc/syntax.md allows variation; only unambiguous texts are generated (RenderInjective is checked on the corpus)",
    "free text (payee, comments, notes, tag values) is compared after trimming blanks; `-x` for a literal x is the same entry as the literal -x",
    "number spellings come from a catalogue that an ASSUME ties to Literal.tla (canonical spelling, mantissa, scale, format)",
]


@check("C05")
def c05(run):
    run.rule = ("spec/Syntax.tla catalogue: 29 posting shapes (x first/second position), 12 header shapes, 14 directives = 83 entries; scenarios: "
                "features (base style), styles (each entry x 35 style variations, one grammar alternative varied at a time incl. CRLF, tabs, tight "
                "operators/assertions/costs, every comment prefix, hyphen dates, trailing blanks, inline metadata, last line ended by end of file), "
                "files (3-entry files x blank-line styles: none, two, lines of blanks); thorough adds TLC simulation with all dimensions drawn "
                "independently; non-trivial = every text (each is parsed, formatted, re-parsed, re-formatted)")
    run.assumptions += SYNTAX_ASSUME
    quick = run.tier == "quick"
    run.add_model(tlc_check("MCSyntax.tla", "Syntax_layout_small.cfg", workers=4, coverage=False))
    # the layout scenario (every account width x number length) is part of C05 too: at the boundary widths a formatter
    # that drops below two separating spaces changes what the text means
    recs, res = syntax_corpus(run, ["features", "styles", "files", "layout"], simulate={"num": 100 if quick else 2000, "depth": 40})
    run.exhaustive = True


def layout_trace(run, recs, res):
    """Binding B for C19: the layout observations of every formatted text are checked by TLC against Syntax.tla's predicates."""
    from vlib import run_tlc, parse_stats
    tr = os.path.join(WORK, "%s-layout.ndjson" % run.pid)
    owner = []
    with open(tr, "w") as f:
        for i, r in enumerate(res):
            for o in r.get("layout") or []:
                o = dict(o)
                o.setdefault("entries", 0); o.setdefault("blanks", 0); o.setdefault("doubleBlank", False); o.setdefault("leadingBlank", False)
                f.write(json.dumps(o) + "\n")
                owner.append(i)
    if not owner:
        raise ToolError("no layout observation recorded")
    rc, out, secs = run_tlc("../SyntaxLayoutTrace.tla", "SyntaxLayoutTrace.cfg", workers=1, timeout=1500, env_extra={"TRACE": tr},
                            java_extra="-Xss1g -Dtlc2.tool.queue.IStateQueue=StateDeque")
    st = parse_stats(out) or {"distinct": 0, "generated": 0}
    if rc != 0 or "No error has been found" not in out:
        sys.stderr.write(out[-3000:])
        raise ToolError("layout trace validation did not complete (rc=%s)" % rc)
    run.add_model({"module": "SyntaxLayoutTrace.tla", "cfg": "SyntaxLayoutTrace.cfg", "states": st["distinct"], "transitions": st["generated"],
                   "seconds": round(secs, 1), "observations": len(owner)})
    kinds = {}
    lines = [json.loads(l) for l in open(tr)]
    for m in re.finditer(r'<<"LAYOUT-VIOLATION", (\d+), \{([^}]*)\}>>', out):
        idx = int(m.group(1)) - 1
        preds = [x.strip().strip('"') for x in m.group(2).split(",")]
        i = owner[idx]
        for pr in preds:
            rec2 = dict(recs[i]); rec2["_mode"] = "syntax"
            run.report(pr, rec2, {"observation": lines[idx]}, "%s: formatted line %s violates %s: %s" % (pr, lines[idx].get("line"), pr, json.dumps(lines[idx])))
    run.traces += len(owner)
    run.extra["layout_observations"] = len(owner)
    by = {}
    for o in lines:
        by[o["kind"]] = by.get(o["kind"], 0) + 1
    run.extra["layout_observations_by_kind"] = by
    applicable = {"Column52": sum(1 for o in lines if o["kind"] == "posting" and o["numEnd"] >= 0 and o["w"] + o["numEnd"] + 2 <= 48),
                  "Column52_not_applicable_long_account": sum(1 for o in lines if o["kind"] == "posting" and o["numEnd"] >= 0 and o["w"] + o["numEnd"] + 2 > 48),
                  "AssertOnlyAligned": sum(1 for o in lines if o["kind"] == "posting" and o["eqTrail"] >= 0 and o["w"] + 2 <= 49 + o["eqTrail"]),
                  "Gap2": sum(1 for o in lines if o["kind"] == "posting" and o["hasValue"])}
    run.extra["layout_predicates_applicable"] = applicable
    for k, v in applicable.items():
        if v == 0:
            raise ToolError("layout predicate %s never applicable in this corpus (vacuous)" % k)


@check("C19")
def c19(run):
    run.rule = ("layout scenario of spec/Syntax.tla: accounts of every display width 1..60 (ASCII and East-Asian wide, with and without clear mark) x "
                "numbers of 1/3/7/12 integer digits, 0/2 decimals, both signs; lot + cost + assertion around the boundary widths 38..50; "
                "assertion-only postings for every width; plus the C05 feature catalogue; each text is formatted by okane and every output line "
                "is abstracted into a layout observation checked by TLC (SyntaxLayoutTrace.tla); non-trivial = posting lines with a value")
    run.assumptions += SYNTAX_ASSUME + ["display width is computed by the harness' own table (East-Asian Wide ranges = 2 columns), not by unicode-width",
                                        "`short enough` is read as: the rule can be met with at least two spaces (W + numeric part + 2 <= 48)",
                                        "the column rule is evaluated for amounts that start with a commodity-bearing literal; expressions only have to keep indent and gap"]
    run.add_model(tlc_check("MCSyntax.tla", "Syntax_layout_small.cfg", workers=4, coverage=False))
    recs, res = syntax_corpus(run, ["layout", "features"] + ([] if run.tier == "quick" else ["styles"]),
                              simulate=None if run.tier == "quick" else {"num": 500, "depth": 40})
    layout_trace(run, recs, res)
    run.nontrivial = set(i for i, r in enumerate(res) if any(o.get("kind") == "posting" and o.get("hasValue") for o in (r.get("layout") or [])))
    run.exhaustive = True


MODES.update({"C05": "syntax", "C19": "syntax"})


# ------------------------------------------------------------------ C14
@check("C14")
def c14(run):
    run.rule = ("spec/Diag.tla: exactly one bad entry (4 kinds of syntax error stopping at entry line 1/2/3, unbalanced, false assertion on posting "
                "line 2/3/5, two amount-less postings, zero rate, same-commodity rate) after every sequence of <=2 (thorough 3) blocks out of "
                "{1 blank line, 2 blank lines, line of blanks, multi-byte comment, 3-line entry, 4-line entry with metadata}, LF or CRLF, in the root "
                "file / an included file / a file included by an included file (also through ..), optionally followed by a valid entry; "
                "non-trivial = the bad entry is preceded by other content or sits in an included file")
    run.assumptions += ["a syntax error may show lines from the entry's first line to the line with the first invalid token; other faults may show any line of the entry; a false assertion must point at its posting's line",
                        "file and line numbers are extracted from the rendered diagnostic (` --> path:L:C`, gutter numbers) and from LoadError::Parse's path; wording and columns are not compared",
                        "checked on FakeFileSystem and on a real directory; `okane balance` (in-process) on every 7th arrangement"]
    cfg = "Diag_quick.cfg" if run.tier == "quick" else "Diag_thorough.cfg"
    nd, n, st = tlc_gen("MCDiag.tla", cfg, "C14-gen", workers=4, timeout=1700)
    run.add_model(st)
    feed(run, "diag", nd, nontrivial=lambda rec, r: rec["depth"] > 0 or len(rec["pre"]) > 0)
    run.exhaustive = True


MODES["C14"] = "diag"


# ------------------------------------------------------------------ C06
def crash_only(rec, r, v):
    return v.get("kind")


def cli_process_sample(run, nd, every=500):
    """The process boundary (cli/src/bin/okane.rs: every Err becomes a message and exit status 1): the real binary on a
    sample of the generated inputs; it must exit normally - never by a signal, with the panic status or not at all - and a
    failure must come with a message."""
    from vlib import okane_bin
    binary = okane_bin()
    d = os.path.join(WORK, "C06-cli-%d" % os.getpid())
    os.makedirs(d, exist_ok=True)
    path = os.path.join(d, "t.ledger")
    recs = read_records(nd)
    sample = [r for i, r in enumerate(recs) if i % every == 0 and len(r["text"]) < 5000]
    n = 0
    for rec in sample:
        text = rec["text"].replace("\u27e6NUL\u27e7", "\x00").replace("\u27e6EMOJI\u27e7", "\U0001F600")
        with open(path, "w", encoding="utf-8", newline="") as f:
            f.write(text)
        for args in (["format", path], ["balance", path], ["register", path], ["accounts", path]):
            n += 1
            try:
                p = subprocess.run([binary] + args, stdout=subprocess.PIPE, stderr=subprocess.PIPE, timeout=20)
                rc = p.returncode
                err = p.stderr.decode("utf-8", "replace")
            except subprocess.TimeoutExpired:
                rc, err = "timeout", ""
            # a signal (negative), Rust's panic status (101) or a hang; which non-zero status an error gets is not the property's business
            crashed = rc == "timeout" or rc < 0 or rc == 101 or "panicked at" in err
            if crashed or (rc != 0 and not err.strip()):
                rec2 = dict(rec); rec2["_mode"] = "total"
                what = "exit status %s" % rc if crashed else "a failure status without any message"
                run.report("process_%s_%s" % (args[0], rc), rec2, {"command": args[0], "status": rc, "stderr": err[-600:]},
                           "process boundary: `okane %s` ended with %s (an error must become a message and a normal exit)" % (args[0], what))
    shutil.rmtree(d, ignore_errors=True)
    run.extra["cli_process_runs"] = run.extra.get("cli_process_runs", 0) + n


@check("C06")
def c06(run):
    run.rule = ("spec/Totality.tla: from 469 valid texts (Syntax.tla's catalogue in four styles, two-entry files) one mutation: every prefix cut at "
                "every character, every short deletion, duplication, and - for 40 texts covering every construct - every token of the ledger alphabet "
                "and 12 awkward Unicode scalars (combining, wide, BOM, zero-width, NUL, non-BMP, lone CR) inserted at every position; amounts nested "
                "1..20000 parentheses deep; the same machine over 13 price databases (both date styles, grouped numbers, CRLF, missing final newline, "
                "zero / negative / self rates) with 35 tokens, each loaded next to a fixed ledger and asked every conversion (balance -X up-to-date and "
                "historical into four commodities, eval at four dates, the CLI with --price-db); all include graphs over three files with cyclic and missing includes (Loader.tla); zero-valued "
                "amounts, rates and totals in every position (Ledger.tla CostLot/Plain scripts); thorough: TLC simulation of mutation walks of depth <= 12. "
                "Each input goes to parse_ledger, format, Loader::load + report::process + balance/eval, and every 10th to the CLI commands "
                "format/balance/register/accounts/flatten/balance -X; non-trivial = inputs that do not parse or are rejected")
    run.assumptions += ["a panic is caught and reported; an abort (stack overflow) or an input exceeding the 5 s budget is attributed to its input by the runner",
                        "the process boundary (main's error mapping: message + exit status 1) is exercised by the real binary on every 500th input",
                        "numbers stay within the representable range (huge literals are C07's)",
                        "the sampled CLI commands of every 10th input run in-process through okane::cmd::Cli",
                        "arbitrary Unicode is sampled through a finite awkward set, not enumerated"]
    nd, n, st = tlc_gen("MCTotality.tla", "Totality_quick.cfg", "C06-mut", workers=8, timeout=1700, dedup=True)
    st["scenario"] = "one mutation"
    run.add_model(st)
    hard = lambda rec, r: any(c in ("parse_err", "process_err") for c in (r.get("classes") or []))
    feed(run, "total", nd, key=lambda r: r["text"], nontrivial=hard)
    if run.tier == "thorough":
        nd, n, st = tlc_gen("MCTotality.tla", "Totality_walk.cfg", "C06-walk", simulate={"num": 8000, "depth": 13}, seed=run.seed, timeout=2400)
        st["scenario"] = "mutation walks (simulation)"
        run.add_model(st)
        feed(run, "total", nd, key=lambda r: r["text"], nontrivial=hard)
    cli_process_sample(run, nd)
    # the price database is a second input file: the same mutation machine over `P` lines
    nd, n, st = tlc_gen("MCTotality.tla", "Totality_price.cfg", "C06-price", workers=8, timeout=1700, dedup=True)
    st["scenario"] = "price database, one mutation"
    run.add_model(st)
    feed(run, "total", nd, key=lambda r: "pricedb:" + r["text"], nontrivial=hard)
    if run.tier == "thorough":
        nd, n, st = tlc_gen("MCTotality.tla", "Totality_priceT.cfg", "C06-pricewalk", simulate={"num": 3000, "depth": 9}, seed=run.seed, timeout=2400)
        st["scenario"] = "price database, mutation walks (simulation)"
        run.add_model(st)
        feed(run, "total", nd, key=lambda r: "pricedb:" + r["text"], nontrivial=hard)
    # include graphs with cycles / missing files
    run.add_model(tlc_check("MCLoader.tla", "Loader_ArbLive.cfg", workers=4))
    # book-keeping terminates as well: Termination of Ledger.tla under weak fairness, on the Plain script
    run.add_model(tlc_check("MCLedger.tla", "Ledger_PlainLive.cfg", workers=4))
    nd, n, st = tlc_gen("MCLoader.tla", "Loader_Arb.cfg", "C06-loader", workers=8, timeout=2400, dedup=True)
    st["scenario"] = "include graphs (failing ones)"
    run.add_model(st)
    feed(run, "loader", nd, keep=lambda r: r["expect"]["status"] != "ok", key=lambda r: json.dumps(r["fs"], sort_keys=True))
    loader_traces(run, "failing", nd, 10 if run.tier == "quick" else 2)
    # arithmetic hazards: only crashes count here (verdicts belong to C01)
    for sc in ["CostLot", "Plain"]:
        nd, n, st = tlc_gen("MCLedger.tla", "Ledger_%s.cfg" % sc, "C06-%s" % sc, workers=8, timeout=1700)
        st["scenario"] = sc
        run.add_model(st)
        recs = read_records(nd)
        res = run_vh("ledger", nd)
        for rec, r in zip(recs, res):
            run.count(hash(json.dumps(rec["input"], sort_keys=True)), r.get("classes") or [])
            for v in r.get("viol", []):
                if v.get("kind", "").startswith(("panic", "fatal_")):
                    rec2 = dict(rec); rec2["_mode"] = "ledger"
                    run.report(v["kind"], rec2, r, "%s: %s" % (v["kind"], v.get("msg")))
        run.traces += len(recs)
    run.exhaustive = run.tier == "quick"


MODES["C06"] = "total"


# ------------------------------------------------------------------ C17
@check("C17")
def c17(run):
    run.rule = ("spec/ImportRules.tla: (rules) every list of <=3 (thorough 4) rewrite rules out of a catalogue of ten (capturing, OR-lists, AND-lists over "
                "payee and category, payee overrides, pending flags, a rule that only matches the payee as rewritten by an earlier rule) x 12 records "
                "(4 payees x category absent/matching/other), each imported as a debit and a credit row; (layers) every list of <=3 configuration "
                "documents out of eight (nested, overlapping, equally long, non-matching paths; scalars set or not) x 4 file paths; (camt) a rule on each of the "
                "nine Camt053 text fields against the text of each of the nine elements of a transaction detail (81 pairs: it must match exactly its own); "
                "non-trivial = at least two rules / two documents")
    run.assumptions += ["regular expressions are abstracted to a finite Match(pattern, text) relation; the harness checks that relation against the regex engine (scenario `table`)",
                        "AND-lists have at most one capturing field (the statement does not order fields inside an element; C13 owns that question)",
                        "the fold is observed through the CSV importer (payee, code, counter account, pending mark of the counter posting); Camt/Viseca share Extractor::extract"]
    nd, n, st = tlc_gen("MCImportRules.tla", "ImportRules_table.cfg", "C17-table", workers=1, timeout=600)
    run.add_model(st)
    feed(run, "rules", nd)
    for sc, cfg in [("camt", "ImportRules_camt.cfg"), ("layers", "ImportRules_layers.cfg"), ("rules", "ImportRules_rules.cfg" if run.tier == "quick" else "ImportRules_rulesT.cfg")]:
        nd, n, st = tlc_gen("MCImportRules.tla", cfg, "C17-%s" % sc, workers=8, timeout=2400)
        st["scenario"] = sc
        run.add_model(st)
        feed(run, "rules", nd)
    run.exhaustive = True


MODES["C17"] = "rules"


# ------------------------------------------------------------------ C16
@check("C16")
def c16(run):
    run.rule = ("spec/ImportCsv.tla: statements of 1-2 rows (thorough 3) with amounts {-2.00, 1.00, 10.50, -1,234.50} (thousands separators, quoted cells), "
                "optional rate 2 / 0.5 with consistent secondary amount, a note, Unicode payee; configurations: asset/liability x amount or credit/debit columns "
                "x layout by index / label / template x delimiter x skipped head lines x date format x row_order x balance column x conversion "
                "(none, extract/compute x price_of_secondary/price_of_primary, disabled) x opening balance 0 / 500; a charge column (empty, 0.00, 1.00 per row; "
                "the fee is a part of the row's amount and is taken out of the counter amount; the charge posting names the operator) under every "
                "conversion mode, account type and column kind; a commodity column (rows in USD or CHF, the balance column per commodity, the account "
                "ending at the last balance in each); skipped head lines that are blank or contain the delimiter or an unbalanced quote; "
                "non-trivial = every statement")
    run.assumptions += ["amounts and rates are of the form 2^a*5^b so computed secondary amounts are exact; values are compared numerically (scale is C15's)",
                        "the counter account and its pending mark are C17's and are not compared here",
                        "the balance column is generated for asset accounts only; a charge is a fee (positive) smaller than the row's amount",
                        "the default conversion (commodity.conversion) is used, so rows without a rate are booked without conversion"]
    cfg = "ImportCsv_quick.cfg" if run.tier == "quick" else "ImportCsv_thorough.cfg"
    if run.tier == "quick":
        nd, n, st = tlc_gen("MCImportCsv.tla", cfg, "C16-gen", workers=8, timeout=2400)
    else:
        nd, n, st = tlc_gen("MCImportCsv.tla", cfg, "C16-gen", simulate={"num": 150000, "depth": 2}, seed=run.seed, timeout=3000)
    run.add_model(st)
    special = lambda rec, r: rec["cfg"]["conv"] != "none" or rec["cfg"]["atype"] == "liability" or rec["cfg"]["order"] == "new_to_old" or rec["cfg"]["balance"]
    feed(run, "csv", nd, nontrivial=special)
    if run.tier == "thorough":
        nd, n, st = tlc_gen("MCImportCsv.tla", "ImportCsv_quick.cfg", "C16-gen-q", workers=8, timeout=2400)
        run.add_model(st)
        feed(run, "csv", nd)
    run.exhaustive = True


MODES["C16"] = "csv"


# ------------------------------------------------------------------ C18
@check("C18")
def c18(run):
    run.rule = ("spec/ImportCamt.tla: consistent statements of 1-2 entries (thorough 3): credit/debit x amounts {1.00, 10.50, 2.00 as 1+1, 10.50 as 10+0.50, "
                "10.50 with an included charge of 0.50 (with and without the amount before charges shown; credited back), 20.50 as a charged and a plain detail, "
                "10.50 / 5.00 without details carrying their own charge of 0.50 / 5.00, 1234.56 as a one-detail batch, mixed-direction details} x value date before/equal to booking date, opening balance "
                "0 / 1000.00 / -50.00 (debit balance), both row orders; non-trivial = statements with a batch")
    run.assumptions += ["single-currency statements; charges next to a detail (with or without AmtDtls) or on an entry (with or without details), included in the amount (debits and credits) or not (debits; only the account posting and the balance of the transaction are then fixed)",
                        "the date of the opening-balance transaction is not compared (the statement does not say)",
                        "the account is given the opening balance by a funding transaction before the imported ledger is processed"]
    cfg = "ImportCamt_quick.cfg" if run.tier == "quick" else "ImportCamt_thorough.cfg"
    nd, n, st = tlc_gen("MCImportCamt.tla", cfg, "C18-gen", workers=8, timeout=2400)
    run.add_model(st)
    feed(run, "camt", nd, nontrivial=lambda rec, r: "batch" in (r.get("classes") or []))
    run.exhaustive = True


MODES["C18"] = "camt"


# ------------------------------------------------------------------ C15
def sig_c15(run):
    listed = set(f["signature"] for f in run.known.get("findings", []) if f["property"] == "C15")

    def sig(rec, r, v):
        # line ends are sanitised by the importer (what is built no longer has them), so a record is
        # attributed by its other unrepresentable features; records whose only feature is a line end
        # (and every representable record) are never attributed to a listed finding
        faults = [f for f in (rec.get("faults") or []) if not f.endswith("_line_end")]
        if faults and all(f in listed for f in faults) and not v.get("kind", "").startswith(("panic", "output_does_not_parse", "transaction_count")):
            return sorted(faults)[0]
        return v.get("kind")
    return sig


@check("C15")
def c15(run):
    run.rule = ("spec/ImportText.tla: 9 payees x 5 codes x 7 notes x 9 bank-style amounts (grouping commas, currency prefix, leading minus, 0-4 decimals) x "
                "configured precision none/0/2/4 = 11,340 statement records, of which 864 are representable in the ledger grammar and the rest violate at "
                "least one conjunct of Representable (`;`, line ends, leading `(..)` or clear mark in the payee; parentheses or line ends in the code; line "
                "ends, `key: value` or `:tags:` shape in the note); each through the CSV importer, (without note) the Camt053 importer and (single-line payee) the Viseca importer; "
                "non-trivial = records with a hostile feature")
    run.assumptions += ["an importer may refuse a record it cannot represent; it may not print something that reads back differently",
                        "text fields are compared after trimming blanks; numbers by value and by scale = max(written scale, configured precision)",
                        "Viseca entries are generated for single-line payees (the format is line based), each next to a foreign-currency entry with exchange rate and processing fee"]
    nd, n, st = tlc_gen("MCImportText.tla", "ImportText.cfg", "C15-gen", workers=4, timeout=1700)
    run.add_model(st)
    recs, res = feed(run, "imptext", nd, sig_of=sig_c15(run), key=lambda r: json.dumps(r["rec"], sort_keys=True))
    cls = {}
    for r in res:
        for c in r.get("classes", []):
            cls[c] = cls.get(c, 0) + 1
    run.extra["classes"] = cls
    nontrivial = set(i for i, r in enumerate(res) if any(c.startswith("hostile_") for c in r.get("classes", [])))
    # ---- the Viseca reader: statements as line sequences (spec/ImportViseca.tla)
    run.rule += ("; spec/ImportViseca.tla: the line reader with one-line look-ahead as a state machine against the recursive statement grammar "
                 "(MachineMatchesGrammar, OnePerEntryLine, ReadsBounded, CountIsCursor, Termination under fairness; refinement of the cursor skeleton "
                 "ImportVisecaCursor.tla, whose invariant Apalache proves inductive in the thorough tier); the reader's own read / peek / entry events "
                 "validated by ImportVisecaTrace.tla; every line sequence of up to "
                 "%d lines over 14 line kinds (five entry shapes, category, exchange rate, fee, credited fee, malformed fee, Air tag, other text, "
                 "digit-initial text, blank) and every statement of up to %d well-formed records out of 42 shapes, in three line-end styles (LF, CRLF, "
                 "no final newline), through the Viseca importer: one transaction per entry line with the date, effective date, payee, counter "
                 "account chosen by this record's own category, spent amount, rate, fee posting and pending mark the specification gives, and the "
                 "printed ledger read back" % ((4, 2) if run.tier == "quick" else (5, 3)))
    run.assumptions += ["Viseca: a sentence of the statement grammar must import; for other line sequences the importer may refuse, and if it does not, "
                        "it yields one transaction per entry line"]
    t = "quick" if run.tier == "quick" else "thorough"
    live = tlc_check("MCImportViseca.tla", "ImportViseca_live.cfg", workers=4, timeout=600)    # Termination, RefinesCursor, CursorInv
    run.add_model(live)
    if run.tier == "thorough":
        # unbounded content: Apalache proves the cursor invariant of ImportVisecaCursor.tla (which ImportViseca.tla refines) inductive
        t0 = __import__("time").time()
        pa = subprocess.run([os.path.join(ROOT, "tools", "apalache_viseca.sh")], stdout=subprocess.PIPE, stderr=subprocess.STDOUT, text=True)
        if pa.returncode != 0:
            sys.stderr.write(pa.stdout[-2000:])
            raise ToolError("Apalache: IndInv of ImportVisecaCursor.tla is not inductive, or a non-vacuity probe was not refuted")
        run.add_model({"module": "apalache/ImportVisecaInd.tla", "cfg": "apalache-mc check --init=IndInit --inv=IndInv --length=1 (+ base case, 3 probes)",
                       "states": 0, "transitions": 0, "seconds": round(__import__("time").time() - t0, 1)})
    off = len(res)
    for sc in ("wf", "arb"):
        nd2, n2, st2 = tlc_gen("MCImportViseca.tla", "ImportViseca_%s_%s.cfg" % (sc, t), "C15-viseca-%s" % sc, workers=8, timeout=2400)
        run.add_model(st2)
        recs2, res2 = feed(run, "viseca", nd2)
        viseca_traces(run, sc, nd2, 1 if sc == "wf" else (2 if run.tier == "quick" else 8))
        for i, r in enumerate(res2):
            for c in r.get("classes", []):
                cls["viseca_" + c] = cls.get("viseca_" + c, 0) + 1
            if "several_records" in r.get("classes", []) or "foreign" in r.get("classes", []):
                nontrivial.add(off + i)
        off += len(res2)
        if sc == "wf" and not any("well_formed" in r.get("classes", []) for r in res2):
            raise ToolError("vacuous: no well-formed Viseca statement was replayed")
    run.extra["classes"] = cls
    run.nontrivial = nontrivial
    run.exhaustive = True


MODES["C15"] = "imptext"


# ------------------------------------------------------------------ C13
@check("C13")
def c13(run):
    import determinism
    determinism.check(run)
