"""Per-property check procedures."""
import json, os, subprocess, sys, glob
from vlib import (Run, ToolError, log, tlc_check, tlc_gen, run_vh, read_records, build_harness,
                  SPEC, MC, WORK, ROOT, VH)

CHECKS = {}


def check(pid):
    def deco(f):
        CHECKS[pid] = f
        return f
    return deco


def setup():
    build_harness()
    env = dict(os.environ, JAVA_TOOL_OPTIONS="-DTLA-Library=%s" % SPEC)
    bad = 0
    for f in sorted(glob.glob(os.path.join(SPEC, "*.tla")) + glob.glob(os.path.join(MC, "*.tla"))):
        p = subprocess.run(["tla-sany", os.path.basename(f)], cwd=os.path.dirname(f), env=env,
                           stdout=subprocess.PIPE, stderr=subprocess.STDOUT, text=True)
        if p.returncode != 0 or "error" in p.stdout.lower().replace("errors: 0", ""):
            if "Semantic errors" in p.stdout or "Fatal errors" in p.stdout or "Could not" in p.stdout or p.returncode != 0:
                print("SANY FAILED:", f)
                print(p.stdout[-1500:])
                bad += 1
    print("setup: harness built, %s" % ("all modules parse" if not bad else "%d modules failed" % bad))
    return 0 if not bad else 2


def replay(pid, path):
    """Re-runs one replay file through the harness mode that produced it."""
    with open(path) as f:
        rp = json.load(f)
    rec = rp["record"]
    mode = rec.get("_mode") or MODES.get(pid)
    if not mode:
        print("no replay mode for", pid)
        return 2
    build_harness()
    tmp = os.path.join(WORK, "replay-%d.ndjson" % os.getpid())
    with open(tmp, "w") as f:
        f.write(json.dumps(rec) + "\n")
    res = run_vh(mode, tmp)
    print(json.dumps(res[0], indent=1, ensure_ascii=False))
    os.remove(tmp)
    if not res[0].get("ok"):
        print("VIOLATION property=%s replay=%s" % (pid, path))
        return 1
    return 0


MODES = {"C20": "golden"}


def feed(run, mode, nd, classify=None, sig_of=None, budget_ms=5000, key=None, env_extra=None):
    """Replays every behaviour of `nd` through harness mode `mode`; reports disagreements."""
    recs = read_records(nd)
    res = run_vh(mode, nd, budget_ms=budget_ms, env_extra=env_extra)
    for i, (rec, r) in enumerate(zip(recs, res)):
        classes = r.get("classes") or (classify(rec) if classify else [])
        k = key(rec) if key else json.dumps(rec, sort_keys=True)
        run.count(hash(k), classes)
        if i % max(1, len(recs) // 3) == 0:
            run.sample({"behaviour": rec, "observed": {k2: v for k2, v in r.items() if k2 not in ("i",)}})
        if not r.get("ok"):
            rec2 = dict(rec)
            rec2["_mode"] = mode
            for v in r.get("viol", [{"kind": "unknown", "msg": ""}]):
                sig = sig_of(rec, r, v) if sig_of else v.get("kind")
                run.report(sig, rec2, r, "%s: %s" % (v.get("kind"), v.get("msg")))
                break
    run.traces += len(recs)
    return recs, res


# ------------------------------------------------------------------ C20
@check("C20")
def c20(run):
    run.rule = ("every behaviour init(file,env); new; [external write|delete|nothing]; setenv; assert(got)|new "
                "[; assert(got2) in thorough] of spec/Golden.tla, contents = all sequences over the token alphabet up "
                "to the length bound; non-trivial = behaviours that reach an assert")
    run.assumptions += ["the harness sets UPDATE_GOLDEN in-process and is single-threaded",
                        "file system is a local temporary directory under /verif/.work"]
    quick = run.tier == "quick"
    run.add_model(tlc_check("MCGolden.tla", "Golden_small.cfg" if quick else "Golden_small_t.cfg", workers=8))
    nd, n, st = tlc_gen("MCGolden.tla", "Golden_gen.cfg" if quick else "Golden_gen_t.cfg", "c20-gen", workers=1,
                        timeout=1500)
    run.add_model(st)
    feed(run, "golden", nd)
    run.exhaustive = True
