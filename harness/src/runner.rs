//! Common record runner: reads ndjson records, runs a closure on each in a
//! worker thread with an 8 MiB stack (what the main thread of the real binary
//! has), catches panics, enforces a per-record wall-clock budget with a
//! watchdog, and prints one JSON result line per record.
//!
//! Protocol with the driver: every output line is `{"i": <index>, ...}`.
//! If the process dies (abort, stack overflow) the driver knows the culprit is
//! the first index without a line and restarts after it.  On a timeout the
//! watchdog prints `{"i":..,"fatal":"timeout"}` and exits with status 97.

use serde_json::{json, Value};
use std::io::{BufRead, Write};
use std::panic::{self, AssertUnwindSafe};
use std::sync::atomic::{AtomicI64, AtomicU64, Ordering};
use std::sync::{Arc, Mutex};
use std::time::{Duration, SystemTime, UNIX_EPOCH};

static CUR: AtomicI64 = AtomicI64::new(-1);
static STARTED_MS: AtomicU64 = AtomicU64::new(0);

thread_local! {
    static LAST_PANIC: std::cell::RefCell<Option<String>> = const { std::cell::RefCell::new(None) };
}

fn now_ms() -> u64 {
    SystemTime::now().duration_since(UNIX_EPOCH).unwrap().as_millis() as u64
}

pub fn install_panic_hook() {
    panic::set_hook(Box::new(|info| {
        let loc = info
            .location()
            .map(|l| format!("{}:{}", l.file(), l.line()))
            .unwrap_or_default();
        let msg = if let Some(s) = info.payload().downcast_ref::<&str>() {
            s.to_string()
        } else if let Some(s) = info.payload().downcast_ref::<String>() {
            s.clone()
        } else {
            "<non-string panic>".to_string()
        };
        LAST_PANIC.with(|p| *p.borrow_mut() = Some(format!("{} @ {}", msg, loc)));
    }));
}

/// Runs `f`, returning Err(panic message) when it panics.
pub fn guarded<T>(f: impl FnOnce() -> T) -> Result<T, String> {
    LAST_PANIC.with(|p| *p.borrow_mut() = None);
    match panic::catch_unwind(AssertUnwindSafe(f)) {
        Ok(v) => Ok(v),
        Err(_) => Err(LAST_PANIC
            .with(|p| p.borrow_mut().take())
            .unwrap_or_else(|| "<panic>".to_string())),
    }
}

pub struct Opts {
    pub input: String,
    pub start: usize,
    pub limit: Option<usize>,
    pub budget: Duration,
}

pub fn parse_opts(args: &[String]) -> Opts {
    let mut o = Opts { input: String::new(), start: 0, limit: None, budget: Duration::from_secs(5) };
    let mut i = 0;
    while i < args.len() {
        match args[i].as_str() {
            "--in" => { o.input = args[i + 1].clone(); i += 1; }
            "--start" => { o.start = args[i + 1].parse().unwrap(); i += 1; }
            "--limit" => { o.limit = Some(args[i + 1].parse().unwrap()); i += 1; }
            "--budget-ms" => { o.budget = Duration::from_millis(args[i + 1].parse().unwrap()); i += 1; }
            _ => {}
        }
        i += 1;
    }
    o
}

pub fn run_records<F>(opts: &Opts, f: F)
where
    F: Fn(usize, &Value) -> Value + Send + 'static,
{
    install_panic_hook();
    let out = Arc::new(Mutex::new(std::io::BufWriter::new(std::io::stdout())));
    let budget = opts.budget.as_millis() as u64;
    {
        let out = out.clone();
        std::thread::spawn(move || loop {
            std::thread::sleep(Duration::from_millis(50));
            let cur = CUR.load(Ordering::SeqCst);
            if cur >= 0 {
                let st = STARTED_MS.load(Ordering::SeqCst);
                if now_ms().saturating_sub(st) > budget {
                    // re-check that the same record is still running
                    if CUR.load(Ordering::SeqCst) == cur && STARTED_MS.load(Ordering::SeqCst) == st {
                        if let Ok(mut w) = out.try_lock() {
                            let _ = writeln!(w, "{}", json!({"i": cur, "fatal": "timeout", "budget_ms": budget}));
                            let _ = w.flush();
                        } else {
                            println!("{}", json!({"i": cur, "fatal": "timeout", "budget_ms": budget}));
                        }
                        std::process::exit(97);
                    }
                }
            }
        });
    }
    let file = std::fs::File::open(&opts.input).expect("open input");
    let reader = std::io::BufReader::new(file);
    let start = opts.start;
    let limit = opts.limit;
    let out2 = out.clone();
    let worker = std::thread::Builder::new()
        .stack_size(8 * 1024 * 1024)
        .spawn(move || {
            let mut n = 0usize;
            for (idx, line) in reader.lines().enumerate() {
                if idx < start { continue; }
                if let Some(l) = limit { if n >= l { break; } }
                let line = line.expect("read line");
                if line.trim().is_empty() { continue; }
                let rec: Value = match serde_json::from_str(&line) {
                    Ok(v) => v,
                    Err(e) => { eprintln!("bad record {}: {}", idx, e); std::process::exit(2); }
                };
                STARTED_MS.store(now_ms(), Ordering::SeqCst);
                CUR.store(idx as i64, Ordering::SeqCst);
                let res = guarded(|| f(idx, &rec));
                CUR.store(-1, Ordering::SeqCst);
                let mut v = match res {
                    Ok(v) => v,
                    Err(p) => json!({"ok": false, "viol": [{"kind": "harness_panic", "msg": p}]}),
                };
                v["i"] = json!(idx);
                let mut w = out2.lock().unwrap();
                writeln!(w, "{}", v).unwrap();
                // flush each line so the driver can attribute a crash
                w.flush().unwrap();
                n += 1;
            }
        })
        .unwrap();
    worker.join().unwrap();
}

pub fn viol(kind: &str, msg: impl Into<String>) -> Value {
    json!({"kind": kind, "msg": msg.into()})
}
