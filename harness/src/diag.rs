//! C14: where diagnostics point.  spec/Diag.tla gives file trees with exactly one bad
//! entry and says which file and which lines the diagnostic may show; this module runs
//! report::process (in-memory and real file system, plain renderer) and the CLI, extracts
//! the named file and every line number from the rendered error, and compares.
use crate::ledger::fake_loader;
use crate::runner::{guarded, viol};
use okane_core::report::{self, ReportContext, ReportError};
use okane_core::load;
use serde_json::{json, Value};
use std::path::PathBuf;

#[derive(Debug, Default, Clone)]
pub struct Diagnostic {
    pub class: String,
    pub file: Option<String>,
    pub origin_line: Option<usize>,
    pub lines: Vec<usize>,
    pub text: String,
}

pub fn extract_lines(text: &str, d: &mut Diagnostic) {
    for l in text.lines() {
        let t = l.trim_start();
        if let Some(rest) = t.strip_prefix("--> ") {
            let parts: Vec<&str> = rest.rsplitn(3, ':').collect();
            if parts.len() == 3 {
                d.origin_line = parts[1].parse().ok();
                d.file = Some(parts[2].to_string());
            }
        } else if let Some(pos) = t.find(" |") {
            if let Ok(n) = t[..pos].trim().parse::<usize>() {
                d.lines.push(n);
            }
        }
    }
}

pub fn diagnose(err: &ReportError) -> Diagnostic {
    let mut d = Diagnostic::default();
    match err {
        ReportError::BookKeep(e, _) => {
            let dbg = format!("{:?}", e);
            d.class = dbg.chars().take_while(|c| c.is_alphanumeric()).collect();
            d.text = format!("{}", err);
            let t = d.text.clone();
            extract_lines(&t, &mut d);
        }
        ReportError::Load(load::LoadError::Parse(pe, path)) => {
            d.class = "parse".into();
            d.file = Some(path.to_string_lossy().to_string());
            d.text = format!("{}", pe);
            let t = d.text.clone();
            extract_lines(&t, &mut d);
        }
        other => {
            d.class = format!("other:{}", other);
            d.text = format!("{:?}", other);
        }
    }
    d
}

fn run<F: load::FileSystem>(loader: load::Loader<F>) -> Result<Option<Diagnostic>, String> {
    guarded(move || {
        let arena = bumpalo::Bump::new();
        let mut ctx = ReportContext::new(&arena);
        let r = match report::process(&mut ctx, loader, &report::ProcessOptions::default()) {
            Ok(_) => None,
            Err(e) => Some(diagnose(&e)),
        };
        r
    })
}

pub fn replay(idx: usize, rec: &Value, workdir: &str) -> Value {
    let nl = if rec["nl"] == "CRLF" { "\r\n" } else { "\n" };
    let files: Vec<(String, String)> = rec["files"].as_array().unwrap().iter().map(|f| {
        let mut text = String::new();
        for l in f["lines"].as_array().unwrap() {
            text.push_str(l.as_str().unwrap());
            text.push_str(nl);
        }
        // the file with the bad entry may end at end of file, without a final line ending
        if rec["eof"] == true && f["path"] == rec["badfile"] {
            let n = text.len() - nl.len();
            text.truncate(n);
        }
        (f["path"].as_str().unwrap().to_string(), text)
    }).collect();
    let ex = &rec["expect"];
    let (first, last, must) = (ex["first"].as_u64().unwrap() as usize, ex["last"].as_u64().unwrap() as usize, ex["must_show"].as_u64().unwrap() as usize);
    let want_file = ex["file"].as_str().unwrap();
    let want_class = ex["class"].as_str().unwrap();
    let mut viols = Vec::new();
    let mut observed = Vec::new();

    let prefix = "/vr";
    let fake_files: Vec<(String, String)> = files.iter().map(|(p, t)| (format!("{}/{}", prefix, p), t.clone())).collect();
    let root = rec["root"].as_str().unwrap();
    let dir = PathBuf::from(workdir).join(format!("dg{}_{}", std::process::id(), idx));
    let _ = std::fs::remove_dir_all(&dir);
    for (p, t) in &files {
        let fp = dir.join(p);
        std::fs::create_dir_all(fp.parent().unwrap()).unwrap();
        std::fs::write(&fp, t).unwrap();
    }
    let dir_c = std::fs::canonicalize(&dir).unwrap();
    let real_prefix = dir_c.to_string_lossy().to_string();
    let runs = vec![
        ("in-memory", prefix.to_string(), run(fake_loader(&fake_files, &format!("{}/{}", prefix, root)))),
        ("real", real_prefix.clone(), run(load::new_loader(dir_c.join(root)).with_error_renderer(annotate_snippets::Renderer::plain()))),
    ];
    for (which, pfx, r) in runs {
        match r {
            Err(p) => viols.push(viol("panic", format!("{} file system: report::process panicked: {}", which, p))),
            Ok(None) => viols.push(viol("accepted_invalid", format!("{} file system: the ledger with one invalid entry ({}) was accepted", which, rec["fault"]))),
            Ok(Some(d)) => {
                observed.push(json!({"fs": which, "class": d.class, "file": d.file, "origin_line": d.origin_line, "lines": d.lines}));
                if want_class == "parse" && d.class != "parse" {
                    viols.push(viol("wrong_error_class", format!("{} file system: syntax error reported as {}", which, d.class)));
                    continue;
                }
                if want_class != "parse" && d.class == "parse" {
                    viols.push(viol("wrong_error_class", format!("{} file system: book-keeping fault {} reported as a syntax error:\n{}", which, want_class, d.text)));
                    continue;
                }
                let file_rel = d.file.as_ref().map(|f| f.strip_prefix(&pfx).map(|s| s.trim_start_matches('/').to_string()).unwrap_or(f.clone()));
                if file_rel.as_deref() != Some(want_file) {
                    viols.push(viol("wrong_file", format!("{} file system: diagnostic names {:?}, the offending entry is in {}", which, d.file, want_file)));
                }
                if d.lines.is_empty() && d.origin_line.is_none() {
                    viols.push(viol("no_line_shown", format!("{} file system: diagnostic shows no line number:\n{}", which, d.text)));
                }
                let mut shown = d.lines.clone();
                if let Some(o) = d.origin_line { shown.push(o); }
                if let Some(bad) = shown.iter().find(|l| **l < first || **l > last) {
                    viols.push(viol("line_outside_entry", format!("{} file system: diagnostic shows line {}, the entry spans lines {}..{} of {}\n{}", which, bad, first, last, want_file, d.text)));
                } else if must != 0 && !shown.contains(&must) {
                    viols.push(viol("fault_line_not_shown", format!("{} file system: diagnostic shows lines {:?} but not line {} where the fault is\n{}", which, shown, must, d.text)));
                } else if want_class == "BalanceAssertionFailure" && d.origin_line != Some(must) {
                    viols.push(viol("fault_line_not_shown", format!("{} file system: diagnostic points at line {:?}, the false assertion is on line {}", which, d.origin_line, must)));
                }
            }
        }
    }
    // the CLI on a sample: its error chain must name the same file and lines
    if viols.is_empty() && idx % 7 == 0 {
        let rp = dir_c.join(root).to_string_lossy().to_string();
        match guarded(|| crate::report::cli(&["balance".to_string(), rp.clone()])) {
            Err(p) => viols.push(viol("panic", format!("`okane balance` panicked: {}", p))),
            Ok(Ok(out)) => viols.push(viol("accepted_invalid", format!("`okane balance` succeeded on an invalid ledger: {}", out))),
            Ok(Err(chain)) => {
                let mut d = Diagnostic::default();
                extract_lines(&chain, &mut d);
                let mut shown = d.lines.clone();
                if let Some(o) = d.origin_line { shown.push(o); }
                let want_abs = dir_c.join(want_file).to_string_lossy().to_string();
                if !chain.contains(&want_abs) {
                    viols.push(viol("wrong_file", format!("`okane balance`: the error chain does not name {}\n{}", want_file, chain)));
                }
                if let Some(bad) = shown.iter().find(|l| **l < first || **l > last) {
                    viols.push(viol("line_outside_entry", format!("`okane balance` shows line {}, the entry spans {}..{}", bad, first, last)));
                }
            }
        }
    }
    let _ = std::fs::remove_dir_all(&dir);
    let classes = vec![format!("fault_{}", rec["fault"].as_str().unwrap()), format!("depth{}", rec["depth"]), rec["nl"].as_str().unwrap().to_string()];
    json!({"ok": viols.is_empty(), "viol": viols, "classes": classes, "observed": observed,
           "files": if viols.is_empty() { Value::Null } else { json!(files) }})
}
