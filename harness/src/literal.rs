//! C07: numeric literals.  The accept set (with value, scale, format and canonical
//! print) comes from spec/Literal.tla; this module enumerates the same string space
//! itself, feeds every string to `PrettyDecimal::from_str`, and expects rejection
//! for every string the specification did not emit.  A sample is also placed in
//! every syntactic position a number can appear in.
use crate::runner::{guarded, viol};
use crate::synproj;
use okane_core::syntax::pretty_decimal::PrettyDecimal;
use serde_json::{json, Value};
use std::collections::HashMap;
use std::str::FromStr;

fn join(v: &Value) -> String {
    v.as_array().unwrap().iter().map(|c| c.as_str().unwrap()).collect()
}

#[derive(Debug, Clone, PartialEq)]
pub struct Val {
    pub neg: bool,
    pub digs: String, // no leading zeros, "" = zero
    pub scale: u32,
    pub fmt: String,
}

impl Val {
    fn from_spec(v: &Value) -> Val {
        Val { neg: v["neg"].as_bool().unwrap(), digs: join(&v["digs"]), scale: v["scale"].as_u64().unwrap() as u32, fmt: v["fmt"].as_str().unwrap().to_string() }
    }
    fn from_proj(n: &Value) -> Val {
        let m = n["m"].as_str().unwrap().trim_start_matches('0').to_string();
        Val { neg: n["neg"].as_bool().unwrap(), digs: m, scale: n["s"].as_u64().unwrap() as u32, fmt: n["f"].as_str().unwrap().to_string() }
    }
    fn groupable(&self) -> bool {
        self.digs.len() as i64 - self.scale as i64 >= 4
    }
    /// equality up to what the property demands (sign of zero is not a value; a grouping
    /// style exists only when there are thousands to group)
    fn same(&self, o: &Val) -> bool {
        self.digs == o.digs && self.scale == o.scale && (self.digs.is_empty() || self.neg == o.neg) && (!self.groupable() || self.fmt == o.fmt)
    }
    fn negated(&self) -> Val {
        Val { neg: !self.neg, ..self.clone() }
    }
}

pub struct Expect {
    pub wf: bool,
    pub lenient: bool,
    pub value: Val,
    pub canon: String,
}

fn why_malformed(s: &str) -> &'static str {
    let body = s.strip_prefix('-').unwrap_or(s);
    if !body.bytes().any(|b| b.is_ascii_digit()) {
        return "no_digit";
    }
    if body.contains('-') {
        return "minus_inside";
    }
    if body.matches('.').count() > 1 {
        return "second_point";
    }
    if let Some(p) = body.find('.') {
        if body[p..].contains(',') {
            return "comma_after_point";
        }
    }
    let ip = body.split('.').next().unwrap();
    if ip.contains(',') {
        return "bad_grouping";
    }
    "other"
}

/// Checks one string against the specification's verdict (None = not in the accept set).
pub fn check(s: &str, ex: Option<&Expect>, viols: &mut Vec<Value>) {
    let r = guarded(|| PrettyDecimal::from_str(s).map(|p| (synproj::num(&p), p)));
    match (&r, ex) {
        (Err(p), _) => viols.push(viol("panic_from_str", format!("PrettyDecimal::from_str({:?}) panicked: {}", s, p))),
        (Ok(Ok((n, _))), None) => {
            let v = Val::from_proj(n);
            viols.push(viol(&format!("accepted_malformed_{}", why_malformed(s)), format!("{:?} is not a well-formed decimal but is read as mantissa {}{} scale {} ({})", s, if v.neg { "-" } else { "" }, if v.digs.is_empty() { "0" } else { &v.digs }, v.scale, v.fmt)));
        }
        (Ok(Ok((n, _))), Some(e)) if !e.wf => {
            let v = Val::from_proj(n);
            viols.push(viol("accepted_unrepresentable", format!("{:?} is too large or too precise for a 96-bit decimal but is read as mantissa {} scale {}", s, v.digs, v.scale)));
        }
        (Ok(Err(_)), None) => {}
        (Ok(Err(_)), Some(e)) if !e.wf || e.lenient => {}
        (Ok(Err(err)), Some(_)) => viols.push(viol("rejected_wellformed", format!("{:?} is a well-formed decimal but is rejected: {}", s, err))),
        (Ok(Ok((n, p))), Some(e)) => {
            let v = Val::from_proj(n);
            // parsing keeps format exactly (not only when groupable): that is what the scanner specifies
            if !(v.same(&e.value) && v.fmt == e.value.fmt) {
                viols.push(viol("wrong_value", format!("{:?} read as {:?}, the number written is {:?}", s, v, e.value)));
                return;
            }
            match guarded(|| p.to_string()) {
                Err(pm) => viols.push(viol("panic_display", format!("printing the value of {:?} panicked: {}", s, pm))),
                Ok(out) => {
                    if out != e.canon {
                        // a different but faithful rendering is fine: it must read back as the same number
                        match guarded(|| PrettyDecimal::from_str(&out).map(|p| synproj::num(&p))) {
                            Ok(Ok(n2)) if Val::from_proj(&n2).same(&e.value) => {}
                            other => viols.push(viol("print_changes_value", format!("{:?} prints as {:?} (specification: {:?}), which reads back as {:?}", s, out, e.canon, other))),
                        }
                    }
                }
            }
        }
    }
}

fn find_num<'a>(v: &'a Value) -> Option<(&'a Value, bool)> {
    // value-expr projection: amount, possibly under a unary minus
    match v["t"].as_str()? {
        "amt" => Some((&v["a"]["n"], false)),
        "neg" => find_num(&v["e"]).map(|(n, neg)| (n, !neg)),
        "paren" => find_num(&v["e"]),
        _ => None,
    }
}

/// Places the literal in every syntactic position; accepted literals must be read there with
/// the same value, rejected ones must make the entry a parse error (never a different reading).
pub fn check_positions(s: &str, ex: Option<&Expect>, viols: &mut Vec<Value>) {
    let positions: Vec<(&str, String, Box<dyn Fn(&Value) -> Value>)> = vec![
        ("posting amount", format!("2024/01/01 t\n    A  {} X\n    B\n", s), Box::new(|e: &Value| e["posts"][0]["amount"].clone())),
        ("cost", format!("2024/01/01 t\n    A  1 X @ {} Y\n    B\n", s), Box::new(|e: &Value| e["posts"][0]["cost"]["v"].clone())),
        ("total cost", format!("2024/01/01 t\n    A  1 X @@ {} Y\n    B\n", s), Box::new(|e: &Value| e["posts"][0]["cost"]["v"].clone())),
        ("lot price", format!("2024/01/01 t\n    A  1 X {{{} Y}}\n    B\n", s), Box::new(|e: &Value| e["posts"][0]["lot"]["price"]["v"].clone())),
        ("balance assertion", format!("2024/01/01 t\n    A  1 X = {} X\n    B\n", s), Box::new(|e: &Value| e["posts"][0]["balance"].clone())),
        ("assignment", format!("2024/01/01 t\n    A  = {} X\n    B\n", s), Box::new(|e: &Value| e["posts"][0]["balance"].clone())),
        ("format directive", format!("commodity X\n    format {} X\n", s), Box::new(|e: &Value| json!({"t": "amt", "a": e["details"][0]["v"]}))),
        ("parenthesised", format!("2024/01/01 t\n    A  ({} X)\n    B\n", s), Box::new(|e: &Value| e["posts"][0]["amount"].clone())),
    ];
    let accept = ex.map(|e| e.wf).unwrap_or(false);
    let lenient = ex.map(|e| e.lenient).unwrap_or(false);
    // inside parentheses a leading `-` is the unary operator, so `--1` has a legitimate
    // arithmetic reading there; only literals with at most one, leading, minus are placed in parentheses
    let minus_ok = s.matches('-').count() == 0 || (s.matches('-').count() == 1 && s.starts_with('-'));
    for (name, text, pick) in positions.iter() {
        if *name == "parenthesised" && !minus_ok {
            continue;
        }
        let r = guarded(|| synproj::parse_all(text));
        match r {
            Err(p) => viols.push(viol("panic_parse", format!("parser panicked on {:?} as {}: {}", s, name, p))),
            Ok(Err(_)) => {
                if accept && !lenient {
                    viols.push(viol("position_rejected", format!("well-formed literal {:?} is rejected as {}", s, name)));
                }
            }
            Ok(Ok(entries)) => {
                if !accept {
                    viols.push(viol("position_reinterpreted", format!("malformed literal {:?} as {} is not rejected; the entry parses as {}", s, name, entries.first().map(|e| e.to_string()).unwrap_or_default())));
                    continue;
                }
                let e = ex.unwrap();
                let node = entries.first().map(|en| pick(en)).unwrap_or(Value::Null);
                match find_num(&node) {
                    Some((n, negated)) => {
                        let v = Val::from_proj(n);
                        let v = if negated { v.negated() } else { v };
                        if !v.same(&e.value) {
                            viols.push(viol("position_wrong_value", format!("{:?} as {} read as {:?}, the number written is {:?}", s, name, v, e.value)));
                        }
                    }
                    None => viols.push(viol("position_wrong_shape", format!("{:?} as {}: no number where one was written: {}", s, name, node))),
                }
            }
        }
    }
    // `eval` argument
    let arg = format!("{} X", s);
    match guarded(|| okane_core::syntax::expr::ValueExpr::try_from(arg.as_str()).map(|v| synproj::value_expr(&v))) {
        Err(p) => viols.push(viol("panic_parse", format!("expression parser panicked on {:?}: {}", arg, p))),
        Ok(Err(_)) => {
            if accept && !lenient {
                viols.push(viol("position_rejected", format!("well-formed literal {:?} is rejected as eval argument", s)));
            }
        }
        Ok(Ok(node)) => {
            if !accept {
                viols.push(viol("position_reinterpreted", format!("malformed literal {:?} as eval argument parses as {}", s, node)));
            } else if let Some((n, negated)) = find_num(&node) {
                let v = Val::from_proj(n);
                let v = if negated { v.negated() } else { v };
                if !v.same(&ex.unwrap().value) {
                    viols.push(viol("position_wrong_value", format!("{:?} as eval argument read as {:?}", s, v)));
                }
            }
        }
    }
}

fn load_accept(path: &str) -> HashMap<String, Expect> {
    let mut m = HashMap::new();
    let text = std::fs::read_to_string(path).expect("accept file");
    for l in text.lines() {
        if l.trim().is_empty() {
            continue;
        }
        let r: Value = serde_json::from_str(l).expect("accept record");
        m.insert(join(&r["s"]), expect_of(&r));
    }
    m
}

fn expect_of(r: &Value) -> Expect {
    Expect { wf: r["wf"].as_bool().unwrap(), lenient: r["lenient"].as_bool().unwrap(), value: Val::from_spec(&r["value"]), canon: join(&r["canon"]) }
}

/// One record = one string with the specification's verdict (long literals).
pub fn replay(_idx: usize, rec: &Value) -> Value {
    let s = join(&rec["s"]);
    let e = expect_of(rec);
    let mut viols = Vec::new();
    check(&s, Some(&e), &mut viols);
    if viols.is_empty() {
        check_positions(&s, Some(&e), &mut viols);
    }
    let mut classes = vec![if e.wf { "wellformed" } else { "unrepresentable" }.to_string()];
    if s.len() >= 28 { classes.push("long".into()); }
    json!({"ok": viols.is_empty(), "viol": viols, "classes": classes, "observed": {"s": s}})
}

/// One record = a whole string space: {alphabet, maxlen, accept_file, part, parts, position_every}.
pub fn replay_space(_idx: usize, rec: &Value) -> Value {
    let alphabet: Vec<char> = rec["alphabet"].as_array().unwrap().iter().map(|c| c.as_str().unwrap().chars().next().unwrap()).collect();
    let maxlen = rec["maxlen"].as_u64().unwrap() as usize;
    let accept = load_accept(rec["accept_file"].as_str().unwrap());
    let part = rec["part"].as_u64().unwrap_or(0) as usize;
    let parts = rec["parts"].as_u64().unwrap_or(1) as usize;
    let pos_every = rec["position_every"].as_u64().unwrap_or(97) as usize;
    let mut viols: Vec<Value> = Vec::new();
    let mut by_kind: HashMap<String, usize> = HashMap::new();
    let (mut n, mut n_accept, mut n_pos) = (0usize, 0usize, 0usize);
    let mut seen_accept = 0usize;
    // odometer over all strings of length 0..=maxlen
    for len in 0..=maxlen {
        let mut idx = vec![0usize; len];
        loop {
            let s: String = idx.iter().map(|i| alphabet[*i]).collect();
            if n % parts == part {
                let ex = accept.get(&s);
                if ex.is_some() { seen_accept += 1; }
                let mut v = Vec::new();
                check(&s, ex, &mut v);
                if ex.map(|e| e.wf).unwrap_or(false) { n_accept += 1; }
                if v.is_empty() && !s.is_empty() && (n / parts) % pos_every == 0 {
                    check_positions(&s, ex, &mut v);
                    n_pos += 1;
                }
                for x in v {
                    let k = x["kind"].as_str().unwrap().to_string();
                    let c = by_kind.entry(k).or_insert(0);
                    *c += 1;
                    if *c <= 3 {
                        viols.push(x);
                    }
                }
            }
            n += 1;
            // next string of this length
            let mut p = len;
            let mut done = true;
            while p > 0 {
                p -= 1;
                idx[p] += 1;
                if idx[p] < alphabet.len() {
                    done = false;
                    break;
                }
                idx[p] = 0;
            }
            if done {
                break;
            }
        }
    }
    let evaluated = (n + parts - 1 - part) / parts;
    json!({"ok": viols.is_empty(), "viol": viols, "classes": ["space"],
           "observed": {"strings": evaluated, "wellformed": n_accept, "accept_records_seen": seen_accept, "in_position": n_pos, "violations_by_kind": by_kind}})
}
