//! C05 / C19: texts rendered by spec/Syntax.tla from abstract entries.
//!  - the text must parse, and the parsed tree must be the abstract entries (C05, first sentence);
//!  - format(text) must parse to the same tree as text, and format(format(text)) = format(text);
//!  - every line of the formatted text is abstracted into a layout observation, which TLC
//!    checks against the C19 predicates of Syntax.tla (SyntaxLayoutTrace.tla).
use crate::runner::{guarded, viol};
use crate::synproj;
use okane_core::format::FormatOptions;
use serde_json::{json, Map, Value};

pub fn format_text(text: &str) -> Result<String, String> {
    let mut out: Vec<u8> = Vec::new();
    let mut r = text.as_bytes();
    FormatOptions::new().format(&mut r, &mut out).map_err(|e| format!("{}", e))?;
    String::from_utf8(out).map_err(|e| e.to_string())
}

fn is_none(v: &Value) -> bool {
    v.is_null() || v == "~" || (v.is_object() && v.get("t").map(|t| t == "none").unwrap_or(false) && v.as_object().unwrap().len() == 1)
}

fn lines_of(v: &Value) -> Value {
    // multi-line text: list of lines (specification) or one string with newlines (parser)
    let ls: Vec<String> = match v {
        Value::Array(a) => a.iter().map(|x| x.as_str().unwrap_or("").trim().to_string()).collect(),
        Value::String(s) => s.lines().map(|l| l.trim().to_string()).collect(),
        _ => vec![],
    };
    json!(ls)
}

fn flip(n: &Value) -> Value {
    let mut n = n.clone();
    let zero = n["m"].as_str().map(|m| m.trim_start_matches('0').is_empty()).unwrap_or(false);
    n["neg"] = json!(!n["neg"].as_bool().unwrap_or(false) && !zero);
    n
}

/// Normal form shared by the specification's abstract entries and the parser's projection.
pub fn normal(v: &Value) -> Value {
    if is_none(v) {
        return Value::Null;
    }
    match v {
        Value::Object(o) => {
            // date record
            if o.len() == 3 && o.contains_key("y") && o.contains_key("m") && o.contains_key("d") {
                return json!(format!("{}-{}-{}", o["y"].as_str().unwrap(), o["m"].as_str().unwrap(), o["d"].as_str().unwrap()));
            }
            // text with width
            if o.len() == 2 && o.contains_key("s") && o.contains_key("w") {
                return json!(o["s"].as_str().unwrap().trim());
            }
            // number
            if o.contains_key("m") && o.contains_key("neg") && o.contains_key("s") && o.contains_key("f") {
                let m = o["m"].as_str().unwrap().trim_start_matches('0').to_string();
                let neg = o["neg"].as_bool().unwrap() && !m.is_empty();
                return json!({"m": m, "neg": neg, "s": o["s"], "f": o["f"]});
            }
            // -x where x is a literal is the literal -x
            if o.get("t").map(|t| t == "neg").unwrap_or(false) {
                let inner = normal(&o["e"]);
                if inner["t"] == "amt" {
                    let mut a = inner.clone();
                    a["a"]["n"] = flip(&inner["a"]["n"]);
                    return a;
                }
                return json!({"t": "neg", "e": inner});
            }
            let kind = o.get("k").and_then(|k| k.as_str()).unwrap_or("");
            let mut m = Map::new();
            for (k, x) in o {
                // free text (top comments, notes, comment lines): compared line by line, trimmed
                let multi = k == "v" && (kind == "comment" || kind == "note");
                if multi {
                    m.insert(k.clone(), lines_of(x));
                } else {
                    m.insert(k.clone(), normal(x));
                }
            }
            Value::Object(m)
        }
        Value::Array(a) => Value::Array(a.iter().map(normal).collect()),
        Value::String(s) => json!(s.trim()),
        other => other.clone(),
    }
}

fn first_diff(a: &Value, b: &Value, path: &str) -> Option<String> {
    match (a, b) {
        (Value::Object(x), Value::Object(y)) => {
            for (k, v) in x {
                match y.get(k) {
                    Some(w) => {
                        if let Some(d) = first_diff(v, w, &format!("{}.{}", path, k)) {
                            return Some(d);
                        }
                    }
                    None => {
                        if !v.is_null() {
                            return Some(format!("{}.{}: {} vs <absent>", path, k, v));
                        }
                    }
                }
            }
            for (k, w) in y {
                if !x.contains_key(k) && !w.is_null() {
                    return Some(format!("{}.{}: <absent> vs {}", path, k, w));
                }
            }
            None
        }
        (Value::Array(x), Value::Array(y)) => {
            if x.len() != y.len() {
                return Some(format!("{}: {} elements vs {}", path, x.len(), y.len()));
            }
            for (i, (v, w)) in x.iter().zip(y.iter()).enumerate() {
                if let Some(d) = first_diff(v, w, &format!("{}[{}]", path, i)) {
                    return Some(d);
                }
            }
            None
        }
        _ => {
            if a == b {
                None
            } else {
                Some(format!("{}: {} vs {}", path, a, b))
            }
        }
    }
}

/// which style dimensions differ from the base style (names the input class of a violation)
fn varied(style: &Value) -> String {
    let base = [("sep", "  "), ("indent", "    "), ("eq", " = "), ("at", " @ "), ("inbr", ""), ("prelot", " "), ("amtsp", " "), ("op", "spaced"),
                ("cprefix", ";"), ("datesep", "/"), ("nl", "\n"), ("blank", "one"), ("eof", "nl"), ("trail", ""), ("meta1", "nextline"), ("metasp", " ")];
    let mut v = Vec::new();
    for (k, b) in base {
        if style[k].as_str().unwrap_or(b) != b {
            v.push(k.to_string());
        }
    }
    if v.is_empty() { "base".to_string() } else { v.join("+") }
}

pub fn char_width(c: char) -> usize {
    let u = c as u32;
    let wide = (0x1100..=0x115F).contains(&u) || (0x2E80..=0xA4CF).contains(&u) || (0xAC00..=0xD7A3).contains(&u)
        || (0xF900..=0xFAFF).contains(&u) || (0xFE30..=0xFE6F).contains(&u) || (0xFF00..=0xFF60).contains(&u) || (0xFFE0..=0xFFE6).contains(&u);
    if wide { 2 } else { 1 }
}

pub fn width(s: &str) -> usize {
    s.chars().map(char_width).sum()
}

fn literal_len(s: &str) -> usize {
    s.bytes().take_while(|b| b.is_ascii_digit() || *b == b'-' || *b == b',' || *b == b'.').count()
}

/// Layout observations of a formatted text, given the tree it was formatted from.
pub fn observe_layout(formatted: &str, tree: &[Value]) -> Vec<Value> {
    let mut obs = Vec::new();
    // postings of the tree in order
    let mut posts: Vec<&Value> = Vec::new();
    for e in tree {
        if e["k"] == "txn" {
            for p in e["posts"].as_array().unwrap() {
                posts.push(p);
            }
        }
    }
    let mut pi = 0usize;
    let lines: Vec<&str> = formatted.split('\n').collect();
    let lines = if lines.last() == Some(&"") { &lines[..lines.len() - 1] } else { &lines[..] };
    let (mut blanks, mut double_blank, mut prev_blank) = (0usize, false, false);
    let mut in_txn = false;
    for (li, line) in lines.iter().enumerate() {
        if line.trim().is_empty() {
            blanks += 1;
            if prev_blank { double_blank = true; }
            prev_blank = true;
            in_txn = false;
            continue;
        }
        prev_blank = false;
        let indent = line.chars().take_while(|c| *c == ' ').count();
        let rest = &line[indent..];
        if indent == 0 && !line.starts_with('\t') {
            in_txn = rest.chars().next().map(|c| c.is_ascii_digit()).unwrap_or(false);
            continue;
        }
        if rest.starts_with(';') {
            obs.push(json!({"kind": "meta", "indent": indent, "w": 0, "gap": 0, "numEnd": -1, "eqTrail": -1, "hasValue": false, "line": li + 1}));
            continue;
        }
        if !in_txn {
            // sub-directive of account / commodity
            obs.push(json!({"kind": "meta", "indent": indent, "w": 0, "gap": 0, "numEnd": -1, "eqTrail": -1, "hasValue": false, "line": li + 1}));
            continue;
        }
        // a posting line: match it with the tree's next posting
        let p = match posts.get(pi) { Some(p) => *p, None => { obs.push(json!({"kind": "unmatched", "line": li + 1, "indent": indent, "w": 0, "gap": 0, "numEnd": -1, "eqTrail": -1, "hasValue": false})); continue; } };
        pi += 1;
        let clear = match p["clear"].as_str().unwrap_or("") { "" => "".to_string(), c => format!("{} ", c) };
        let head = format!("{}{}", clear, p["account"].as_str().unwrap());
        let has_value = !p["amount"].is_null() || !p["balance"].is_null();
        if !rest.starts_with(&head) {
            obs.push(json!({"kind": "unmatched", "line": li + 1, "indent": indent, "w": 0, "gap": 0, "numEnd": -1, "eqTrail": -1, "hasValue": has_value}));
            continue;
        }
        let after = &rest[head.len()..];
        let gap = after.chars().take_while(|c| *c == ' ').count();
        let value = &after[gap..];
        let (mut num_end, mut eq_trail) = (-1i64, -1i64);
        if has_value {
            if let Some(v) = value.strip_prefix("= ") {
                let n = literal_len(v);
                let tail = &v[n..];
                if n > 0 && tail.starts_with(' ') && !tail[1..].is_empty() && !tail[1..].contains(' ') {
                    eq_trail = width(tail) as i64;
                }
            } else {
                let n = literal_len(value);
                if n > 0 && value[n..].starts_with(' ') && value[n + 1..].chars().next().map(|c| !"0123456789@={[(;".contains(c)).unwrap_or(false) {
                    num_end = n as i64;
                }
            }
        }
        obs.push(json!({"kind": "posting", "indent": indent, "w": width(&head), "gap": gap, "numEnd": num_end, "eqTrail": eq_trail, "hasValue": has_value, "line": li + 1}));
    }
    obs.push(json!({"kind": "file", "entries": tree.len(), "blanks": blanks, "doubleBlank": double_blank,
                    "leadingBlank": lines.first().map(|l| l.trim().is_empty()).unwrap_or(false),
                    "indent": 0, "w": 0, "gap": 0, "numEnd": -1, "eqTrail": -1, "hasValue": false, "line": 0}));
    obs
}

pub fn replay(_idx: usize, rec: &Value) -> Value {
    let text = rec["text"].as_str().unwrap().to_string();
    let cls = varied(&rec["style"]);
    let mut viols = Vec::new();
    let mut layout = Vec::new();
    let t1 = text.clone();
    let parsed = guarded(move || synproj::parse_all(&t1));
    let tree = match parsed {
        Err(p) => { viols.push(viol("panic_parse", format!("parser panicked: {}", p))); None }
        Ok(Err(e)) => { viols.push(viol(&format!("rejected_documented_syntax:{}", cls), format!("text in the documented grammar is rejected: {}", e.lines().next().unwrap_or("")))); None }
        Ok(Ok(t)) => Some(t),
    };
    if let Some(tree) = &tree {
        let want = normal(&rec["expect"]);
        let got = normal(&json!(tree));
        if let Some(d) = first_diff(&want, &got, "") {
            viols.push(viol(&format!("parsed_tree_differs:{}", cls), format!("abstract entries vs parsed tree differ at {}", d)));
        }
        let t2 = text.clone();
        match guarded(move || format_text(&t2)) {
            Err(p) => viols.push(viol("panic_format", format!("formatter panicked: {}", p))),
            Ok(Err(e)) => viols.push(viol("format_failed", format!("format failed on text that parses: {}", e))),
            Ok(Ok(f1)) => {
                let f1c = f1.clone();
                match guarded(move || synproj::parse_all(&f1c)) {
                    Err(p) => viols.push(viol("panic_parse", format!("parser panicked on formatted text: {}", p))),
                    Ok(Err(e)) => viols.push(viol("formatted_text_rejected", format!("formatted text does not parse: {}\n{}", e.lines().next().unwrap_or(""), f1))),
                    Ok(Ok(tree2)) => {
                        if let Some(d) = first_diff(&json!(tree), &json!(tree2), "") {
                            viols.push(viol("format_changes_meaning", format!("formatted text parses to different entries at {}\n{}", d, f1)));
                        }
                    }
                }
                let f1d = f1.clone();
                match guarded(move || format_text(&f1d)) {
                    Ok(Ok(f2)) => {
                        if f2 != f1 {
                            let n = f1.lines().zip(f2.lines()).take_while(|(a, b)| a == b).count();
                            viols.push(viol("format_not_idempotent", format!("formatting formatted text changes line {}: {:?} -> {:?}", n + 1, f1.lines().nth(n), f2.lines().nth(n))));
                        }
                    }
                    other => viols.push(viol("format_not_idempotent", format!("formatting formatted text fails: {:?}", other))),
                }
                layout = observe_layout(&f1, tree);
            }
        }
    }
    let classes = vec![rec["scenario"].as_str().unwrap_or("").to_string(), cls];
    json!({"ok": viols.is_empty(), "viol": viols, "classes": classes, "layout": layout, "observed": {"parsed": tree.is_some()}})
}
