//! Projection of okane's syntax tree (plain decoration) onto JSON: exactly the
//! features C05 lists -- dates, effective dates, clear states, codes, payees,
//! accounts, value expressions with each number's mantissa, scale and format,
//! costs, lot price/date/note, balance assertions, metadata, directives.
//! Decimal's `==` is numeric, so scale and format are projected explicitly.
use okane_core::syntax::{self, expr, plain, pretty_decimal::{Format, PrettyDecimal}};
use serde_json::{json, Value};

pub fn num(p: &PrettyDecimal) -> Value {
    let m = p.value.mantissa();
    let f = match p.format {
        None => "none",
        Some(Format::Plain) => "plain",
        Some(Format::Comma3Dot) => "comma",
        Some(_) => "other",
    };
    json!({"m": m.unsigned_abs().to_string(), "neg": m < 0, "s": p.value.scale(), "f": f})
}

pub fn amount(a: &expr::Amount) -> Value {
    json!({"n": num(&a.value), "c": a.commodity.as_ref()})
}

pub fn value_expr(v: &expr::ValueExpr) -> Value {
    match v {
        expr::ValueExpr::Amount(a) => json!({"t": "amt", "a": amount(a)}),
        expr::ValueExpr::Paren(e) => json!({"t": "paren", "e": expr_json(e)}),
    }
}

pub fn expr_json(e: &expr::Expr) -> Value {
    match e {
        expr::Expr::Unary(u) => json!({"t": "neg", "e": expr_json(&u.expr)}),
        expr::Expr::Binary(b) => json!({"t": "bin", "op": format!("{}", b.op), "l": expr_json(&b.lhs), "r": expr_json(&b.rhs)}),
        expr::Expr::Value(v) => value_expr(v),
    }
}

fn exchange(x: &syntax::Exchange) -> Value {
    match x {
        syntax::Exchange::Total(v) => json!({"k": "total", "v": value_expr(v)}),
        syntax::Exchange::Rate(v) => json!({"k": "rate", "v": value_expr(v)}),
    }
}

fn clear(c: &syntax::ClearState) -> &'static str {
    match c {
        syntax::ClearState::Uncleared => "",
        syntax::ClearState::Cleared => "*",
        syntax::ClearState::Pending => "!",
    }
}

fn mvalue(v: &syntax::MetadataValue) -> Value {
    match v {
        syntax::MetadataValue::Text(t) => json!({"k": "text", "v": t.as_ref()}),
        syntax::MetadataValue::Expr(t) => json!({"k": "expr", "v": t.as_ref()}),
    }
}

fn metadata(m: &syntax::Metadata) -> Value {
    match m {
        syntax::Metadata::Comment(c) => json!({"k": "comment", "v": c.as_ref()}),
        syntax::Metadata::WordTags(t) => json!({"k": "tags", "v": t.iter().map(|x| x.as_ref().to_string()).collect::<Vec<_>>()}),
        syntax::Metadata::KeyValueTag { key, value } => json!({"k": "kv", "key": key.as_ref(), "value": mvalue(value)}),
    }
}

fn posting(p: &plain::Posting) -> Value {
    let (amt, cost, lot) = match &p.amount {
        None => (Value::Null, Value::Null, json!({"price": null, "date": null, "note": null})),
        Some(a) => (
            value_expr(&a.amount),
            a.cost.as_ref().map(exchange).unwrap_or(Value::Null),
            json!({"price": a.lot.price.as_ref().map(exchange), "date": a.lot.date.map(|d| d.to_string()), "note": a.lot.note.as_ref().map(|n| n.as_ref().to_string())}),
        ),
    };
    json!({"account": p.account.as_ref(), "clear": clear(&p.clear_state), "amount": amt, "cost": cost, "lot": lot,
           "balance": p.balance.as_ref().map(value_expr), "metadata": p.metadata.iter().map(metadata).collect::<Vec<_>>()})
}

pub fn entry(e: &plain::LedgerEntry) -> Value {
    match e {
        syntax::LedgerEntry::Txn(t) => json!({"k": "txn", "date": t.date.to_string(), "edate": t.effective_date.map(|d| d.to_string()),
            "clear": clear(&t.clear_state), "code": t.code.as_ref().map(|c| c.as_ref().to_string()), "payee": t.payee.as_ref(),
            "metadata": t.metadata.iter().map(metadata).collect::<Vec<_>>(), "posts": t.posts.iter().map(posting).collect::<Vec<_>>()}),
        syntax::LedgerEntry::Comment(c) => json!({"k": "comment", "v": c.0.as_ref()}),
        syntax::LedgerEntry::ApplyTag(a) => json!({"k": "apply_tag", "key": a.key.as_ref(), "value": a.value.as_ref().map(mvalue)}),
        syntax::LedgerEntry::EndApplyTag => json!({"k": "end_apply_tag"}),
        syntax::LedgerEntry::Include(i) => json!({"k": "include", "path": i.0.as_ref()}),
        syntax::LedgerEntry::Account(a) => json!({"k": "account", "name": a.name.as_ref(), "details": a.details.iter().map(|d| match d {
            syntax::AccountDetail::Comment(c) => json!({"k": "comment", "v": c.as_ref()}),
            syntax::AccountDetail::Note(c) => json!({"k": "note", "v": c.as_ref()}),
            syntax::AccountDetail::Alias(c) => json!({"k": "alias", "v": c.as_ref()}),
        }).collect::<Vec<_>>()}),
        syntax::LedgerEntry::Commodity(a) => json!({"k": "commodity", "name": a.name.as_ref(), "details": a.details.iter().map(|d| match d {
            syntax::CommodityDetail::Comment(c) => json!({"k": "comment", "v": c.as_ref()}),
            syntax::CommodityDetail::Note(c) => json!({"k": "note", "v": c.as_ref()}),
            syntax::CommodityDetail::Alias(c) => json!({"k": "alias", "v": c.as_ref()}),
            syntax::CommodityDetail::Format(f) => json!({"k": "format", "v": amount(f)}),
        }).collect::<Vec<_>>()}),
    }
}

/// Parses a whole text; Ok(list of projected entries) or Err(message of the first parse error).
pub fn parse_all(text: &str) -> Result<Vec<Value>, String> {
    let opts = okane_core::parse::ParseOptions::default().with_error_style(annotate_snippets::Renderer::plain());
    let mut out = Vec::new();
    for r in okane_core::parse::parse_ledger::<plain::Ident>(&opts, text) {
        match r {
            Ok((_, e)) => out.push(entry(&e)),
            Err(e) => return Err(format!("{}", e)),
        }
    }
    Ok(out)
}
