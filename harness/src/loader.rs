//! C11 (and the include part of C06): replays behaviours of spec/Loader.tla.
//!
//! A behaviour is a file tree (paths as component sequences, each file a list
//! of items: entry #id or include pattern), the root, and what the
//! specification's loader delivers.  The tree is materialised twice -- as a
//! FakeFileSystem and as a real directory -- and `Loader::load`'s callback
//! sequence (canonical path, entry) is compared with the specification's
//! `delivered`.  In the `split` scenario the entries are an order-sensitive
//! ledger and the reports of the split tree are compared with those of the
//! flat file (two-run product check).
use crate::ledger::{fake_loader, parse_rejection, project_ledger, Accepted, Rejection};
use crate::runner::{guarded, viol};
use okane_core::report::{self, ReportContext};
use okane_core::{load, parse, syntax};
use serde_json::{json, Value};
use std::path::{Path, PathBuf};

fn name(v: &Value) -> String {
    v.as_array().unwrap().iter().map(|c| c.as_str().unwrap()).collect()
}

fn comps(v: &Value) -> Vec<String> {
    v.as_array().unwrap().iter().map(name).collect()
}

fn path_str(prefix: &str, v: &Value) -> String {
    format!("{}/{}", prefix, comps(v).join("/"))
}

fn pattern_str(p: &Value) -> String {
    let mut parts: Vec<String> = Vec::new();
    for _ in 0..p["up"].as_u64().unwrap() {
        parts.push("..".to_string());
    }
    parts.extend(comps(&p["comps"]));
    parts.join("/")
}

/// The order-sensitive ledgers used as entries 1..5 of the split scenario.
const BASES: [[&str; 5]; 3] = [
    [
        "2024/01/01 e1\n    A  10 X\n    E\n",
        "2024/01/02 e2\n    A  -3 X = 7 X\n    B\n",
        "2024/01/03 e3\n    A  = 20 X\n    E\n",
        "2024/01/04 e4\n    B  1 Y @ 2 X\n    A  -2 X = 18 X\n",
        "2024/01/05 e5\n    A  -18 X = 0\n    E\n",
    ],
    [
        "account Assets:Bank\n    alias AB\n",
        "commodity USD\n    alias US\n    format 1,000.00 USD\n",
        "2024/01/01 e3\n    AB  10 US\n    E\n",
        "; a top-level comment\n",
        "2024/01/02 e5\n    Assets:Bank  -1.5 USD = 8.5 US\n    E\n",
    ],
    [
        "2024/01/01 e1\n    A  10 X\n    E\n",
        "2024/01/02 e2\n    A  -3 X = 7 X\n    B\n",
        "2024/01/03 e3\n    A  = 20 X\n    E\n",
        "2024/01/04 e4\n    B  1 Y @ 2 X\n    A  -2 X = 99 X\n",
        "2024/01/05 e5\n    A  -18 X = 0\n    E\n",
    ],
];

struct Tree {
    /// (relative path like "r/m.l", content) of every existing file
    files: Vec<(String, String)>,
    root: String,
}

fn entry_text(scenario: &str, base: usize, rel: &str, id: i64) -> String {
    if scenario == "split" {
        BASES[base][(id - 1) as usize].to_string()
    } else {
        format!("2024/01/01 {}#{}\n    A  1 X\n    B  -1 X\n", rel, id)
    }
}

fn build(rec: &Value, base: usize) -> Tree {
    let scenario = rec["scenario"].as_str().unwrap();
    let mut files = Vec::new();
    for f in rec["fs"].as_array().unwrap() {
        if f["missing"] == true {
            continue;
        }
        let rel = comps(&f["path"]).join("/");
        let mut text = String::new();
        for it in f["items"].as_array().unwrap() {
            if it["k"] == "inc" {
                text.push_str(&format!("include {}\n", pattern_str(&it["pat"])));
            } else {
                text.push_str(&entry_text(scenario, base, &rel, it["id"].as_i64().unwrap()));
            }
            text.push('\n');
        }
        files.push((rel, text));
    }
    Tree { files, root: comps(&rec["root"]).join("/") }
}

fn debug_entry(text: &str) -> String {
    let opts = parse::ParseOptions::default();
    let mut it = parse::parse_ledger::<syntax::plain::Ident>(&opts, text);
    match it.next() {
        Some(Ok((_, e))) => format!("{:?}", e),
        other => panic!("harness entry text does not parse: {:?} -> {:?}", text, other.map(|r| r.map(|_| ()).map_err(|e| e.to_string()))),
    }
}

#[derive(Debug, PartialEq, Clone)]
struct Loaded {
    delivered: Vec<(String, String)>, // (path, Debug of the entry)
    result: String,                   // "ok" | "err:<variant>:<io kind>"
}

fn load_err_class(e: &load::LoadError) -> String {
    match e {
        load::LoadError::IO(ioe, _) => format!("err:IO:{:?}", ioe.kind()),
        other => {
            let d = format!("{:?}", other);
            format!("err:{}", d.chars().take_while(|c| c.is_alphanumeric()).collect::<String>())
        }
    }
}

fn run_loader<F: load::FileSystem>(loader: load::Loader<F>, strip: &str) -> Loaded {
    let mut delivered = Vec::new();
    let r = loader.load(|path: &Path, _ctx, entry: &syntax::plain::LedgerEntry| {
        let p = path.to_string_lossy().to_string();
        let p = p.strip_prefix(strip).map(|s| s.trim_start_matches('/').to_string()).unwrap_or(p);
        delivered.push((p, format!("{:?}", entry)));
        Ok::<(), load::LoadError>(())
    });
    let result = match r {
        Ok(()) => "ok".to_string(),
        Err(e) => load_err_class(&e),
    };
    Loaded { delivered, result }
}

#[derive(Debug, Clone)]
enum Rep {
    Ok(Accepted),
    Rej(Rejection),
}

fn run_report<F: load::FileSystem>(loader: load::Loader<F>) -> Rep {
    let arena = bumpalo::Bump::new();
    let mut ctx = ReportContext::new(&arena);
    let res = report::process(&mut ctx, loader, &report::ProcessOptions::default());
    match res {
        Ok(mut ledger) => match project_ledger(&ctx, &mut ledger) {
            Ok(a) => Rep::Ok(a),
            Err(m) => panic!("{}", m),
        },
        Err(e) => Rep::Rej(parse_rejection(&e)),
    }
}

fn materialise(dir: &Path, tree: &Tree) {
    let _ = std::fs::remove_dir_all(dir);
    for (rel, text) in &tree.files {
        let p = dir.join(rel);
        std::fs::create_dir_all(p.parent().unwrap()).unwrap();
        std::fs::write(&p, text).unwrap();
    }
    std::fs::create_dir_all(dir).unwrap();
}

fn status_ok(expect: &str, got: &str) -> bool {
    match expect {
        "ok" => got == "ok",
        // missing root / include that matches nothing: a NotFound I/O error
        "err_io" | "err_notfound" => got == "err:IO:NotFound",
        // a file that (transitively) includes itself: any error
        "err_cycle" => got.starts_with("err:"),
        _ => false,
    }
}

pub fn replay(idx: usize, rec: &Value, workdir: &str) -> Value {
    let scenario = rec["scenario"].as_str().unwrap().to_string();
    let base = idx % BASES.len();
    let tree = build(rec, base);
    let ex = &rec["expect"];
    let want_status = ex["status"].as_str().unwrap();
    let mut viols = Vec::new();

    // what the specification delivers
    let mut want: Vec<(String, String)> = Vec::new();
    for d in ex["delivered"].as_array().unwrap() {
        let rel = comps(&d["path"]).join("/");
        let text = entry_text(&scenario, base, &rel, d["id"].as_i64().unwrap());
        want.push((rel, debug_entry(&text)));
    }

    // ---- in-memory file system
    let prefix = "/vr";
    let fake_files: Vec<(String, String)> = tree.files.iter().map(|(r, t)| (format!("{}/{}", prefix, r), t.clone())).collect();
    let root_fake = format!("{}/{}", prefix, tree.root);
    let fake = match guarded(|| run_loader(fake_loader(&fake_files, &root_fake), prefix)) {
        Ok(l) => l,
        Err(p) => {
            viols.push(viol("panic", format!("Loader::load panicked on the in-memory file system: {}", p)));
            Loaded { delivered: vec![], result: "panic".into() }
        }
    };
    // ---- real file system
    let dir = PathBuf::from(workdir).join(format!("ld{}_{}", std::process::id(), idx));
    materialise(&dir, &tree);
    let dir_c = std::fs::canonicalize(&dir).unwrap();
    let strip = dir_c.to_string_lossy().to_string();
    let root_real = dir_c.join(&tree.root);
    let real = match guarded(|| run_loader(load::new_loader(root_real.clone()).with_error_renderer(annotate_snippets::Renderer::plain()), &strip)) {
        Ok(l) => l,
        Err(p) => {
            viols.push(viol("panic", format!("Loader::load panicked on the real file system: {}", p)));
            Loaded { delivered: vec![], result: "panic".into() }
        }
    };

    for (which, got) in [("in-memory", &fake), ("real", &real)] {
        if got.result == "panic" {
            continue;
        }
        if !status_ok(want_status, &got.result) {
            viols.push(viol(&format!("status_{}", want_status), format!("{} file system: load ended with {}, specification says {}", which, got.result, want_status)));
        } else if got.delivered != want {
            let n = got.delivered.iter().zip(want.iter()).take_while(|(a, b)| a == b).count();
            viols.push(viol("delivery_order", format!(
                "{} file system: delivered sequence differs from the specification at position {} (got {:?}, specification {:?}); {} delivered, {} expected",
                which, n + 1, got.delivered.get(n).map(|x| &x.0), want.get(n).map(|x| &x.0), got.delivered.len(), want.len())));
        }
    }

    // ---- split scenario: reports of the tree equal reports of the flat file
    let has_inc = rec["fs"].as_array().unwrap().iter().any(|f| f["items"].as_array().unwrap().iter().any(|i| i["k"] == "inc"));
    let mut classes = if has_inc { vec![scenario.clone(), format!("status_{}", want_status)] } else { vec![] };
    if rec["nsplit"].as_i64().unwrap_or(0) > 0 { classes.push("split".into()); }
    if rec["fs"].as_array().unwrap().iter().any(|f| f["items"].as_array().unwrap().iter().any(|i| i["k"] == "inc" && pattern_str(&i["pat"]).contains(['*', '?']))) {
        classes.push("glob".into());
    }
    if rec["fs"].as_array().unwrap().iter().any(|f| f["items"].as_array().unwrap().iter().any(|i| i["k"] == "inc" && i["pat"]["up"].as_i64().unwrap() > 0)) {
        classes.push("parent".into());
    }
    if scenario == "split" && viols.is_empty() {
        let flat_text: String = BASES[base].iter().map(|e| format!("{}\n", e)).collect();
        let flat = guarded(|| run_report(fake_loader(&[("/vr/flat.ledger".to_string(), flat_text.clone())], "/vr/flat.ledger")));
        let t_fake = guarded(|| run_report(fake_loader(&fake_files, &root_fake)));
        let t_real = guarded(|| run_report(load::new_loader(root_real.clone()).with_error_renderer(annotate_snippets::Renderer::plain())));
        match (&flat, &t_fake, &t_real) {
            (Ok(f), Ok(a), Ok(b)) => {
                for (which, t) in [("in-memory", a), ("real", b)] {
                    match (f, t) {
                        (Rep::Ok(x), Rep::Ok(y)) => {
                            if x.reg != y.reg || x.bal != y.bal {
                                viols.push(viol("split_changes_report", format!("{} file system: flat ledger gives {:?} / {:?}, split tree gives {:?} / {:?}", which, x.bal, x.reg, y.bal, y.reg)));
                            }
                        }
                        (Rep::Rej(x), Rep::Rej(y)) => {
                            if x.kind != y.kind {
                                viols.push(viol("split_changes_error", format!("{} file system: flat ledger fails with {}, split tree with {} ({})", which, x.kind, y.kind, y.text)));
                            }
                        }
                        (Rep::Ok(_), Rep::Rej(y)) => viols.push(viol("split_changes_report", format!("{} file system: flat ledger is accepted, split tree fails: {}", which, y.text))),
                        (Rep::Rej(x), Rep::Ok(_)) => viols.push(viol("split_changes_report", format!("{} file system: flat ledger fails ({}), split tree is accepted", which, x.kind))),
                    }
                }
            }
            _ => viols.push(viol("panic", format!("report::process panicked: {:?} {:?} {:?}", flat.as_ref().err(), t_fake.as_ref().err(), t_real.as_ref().err()))),
        }
        // the CLI on the real tree: `okane primitive flatten` prints the flat entries in order, `okane balance` agrees with the flat file
        if viols.is_empty() && idx % 5 == 0 {
            let flat_path = dir_c.join("flat.ledger");
            std::fs::write(&flat_path, &flat_text).unwrap();
            let a = guarded(|| crate::report::cli(&["balance".to_string(), flat_path.to_string_lossy().to_string()]));
            let b = guarded(|| crate::report::cli(&["balance".to_string(), root_real.to_string_lossy().to_string()]));
            // error text names files, so only success output is compared byte for byte
            match (&a, &b) {
                (Ok(Ok(x)), Ok(Ok(y))) if x == y => {}
                (Ok(Err(_)), Ok(Err(_))) => {}
                _ => viols.push(viol("cli_split_changes_report", format!("`okane balance` flat: {:?}; split: {:?}", a, b))),
            }
            let fa = guarded(|| crate::report::cli(&["primitive".to_string(), "flatten".to_string(), flat_path.to_string_lossy().to_string()]));
            let fb = guarded(|| crate::report::cli(&["primitive".to_string(), "flatten".to_string(), root_real.to_string_lossy().to_string()]));
            if fa != fb {
                viols.push(viol("cli_flatten", format!("`okane primitive flatten` flat: {:?}; split: {:?}", fa, fb)));
            }
        }
    }
    let _ = std::fs::remove_dir_all(&dir);
    let files_json: Vec<Value> = tree.files.iter().map(|(p, t)| json!({"path": p, "text": t})).collect();
    json!({"ok": viols.is_empty(), "viol": viols, "classes": classes,
           "observed": {"fake": {"result": fake.result, "delivered": fake.delivered.iter().map(|d| d.0.clone()).collect::<Vec<_>>()},
                        "real": {"result": real.result, "delivered": real.delivered.iter().map(|d| d.0.clone()).collect::<Vec<_>>()}},
           "files": if viols.is_empty() { Value::Null } else { json!(files_json) }})
}

// ---------------------------------------------------------------------------
// Binding B for Loader.tla: record the loader's own events (core/src/load.rs under
// --cfg okane_verif) while it loads the file trees of TLC-generated behaviours, on
// both file systems, and write them as a trace that spec/LoaderTrace.tla validates
// action by action.  Paths are rewritten into the specification's representation
// (component and character sequences relative to the tree's top); nothing else is
// derived.
// ---------------------------------------------------------------------------
fn path_json(strip: &str, p: &str) -> Value {
    let rel = p.strip_prefix(strip).map(|s| s.trim_start_matches('/')).unwrap_or(p);
    // the real file system's glob hands back `dir/../name` for a pattern that goes up; the loader canonicalises it
    // when it enters the file, the specification's paths are canonical throughout: `x/..` is removed lexically
    let mut parts: Vec<&str> = Vec::new();
    for c in rel.split('/') {
        if c == ".." && !parts.is_empty() { parts.pop(); } else if c != "." { parts.push(c); }
    }
    Value::Array(parts.iter().map(|c| Value::Array(c.chars().map(|ch| json!(ch.to_string())).collect())).collect())
}

fn record_events<F: load::FileSystem>(loader: load::Loader<F>, strip: &str, out: &mut Vec<Value>) {
    okane_core::verif::start();
    let r = loader.load(|_p: &Path, _ctx, _e: &syntax::plain::LedgerEntry| Ok::<(), load::LoadError>(()));
    let events = okane_core::verif::take();
    for line in events {
        let mut v: Value = serde_json::from_str(&line).expect("loader event is JSON");
        let p = v["path"].as_str().unwrap().to_string();
        v["path"] = path_json(strip, &p);
        if let Some(ms) = v.get("matches").cloned() {
            v["matches"] = Value::Array(ms.as_array().unwrap().iter().map(|m| path_json(strip, m.as_str().unwrap())).collect());
        }
        out.push(v);
    }
    out.push(json!({"ev": "end", "result": if r.is_ok() { "ok" } else { "err" }, "error": r.err().map(|e| load_err_class(&e)).unwrap_or_default()}));
}

pub fn trace_main(args: &[String]) {
    let mut input = None;
    let mut output = None;
    let mut limit = usize::MAX;
    let mut stride = 1usize;
    let mut i = 0;
    while i < args.len() {
        match args[i].as_str() {
            "--in" => { input = Some(args[i + 1].clone()); i += 1; }
            "--out" => { output = Some(args[i + 1].clone()); i += 1; }
            "--limit" => { limit = args[i + 1].parse().unwrap(); i += 1; }
            "--stride" => { stride = args[i + 1].parse().unwrap(); i += 1; }
            _ => {}
        }
        i += 1;
    }
    let workdir = std::env::var("VH_WORK").unwrap_or_else(|_| "/verif/.work".to_string());
    let text = std::fs::read_to_string(input.expect("--in")).unwrap();
    let mut out: Vec<Value> = Vec::new();
    let mut runs = 0usize;
    for (idx, line) in text.lines().enumerate() {
        if idx % stride != 0 || line.trim().is_empty() { continue; }
        if runs >= limit { break; }
        let rec: Value = serde_json::from_str(line).unwrap();
        let tree = build(&rec, idx % BASES.len());
        let fs_event = json!({"ev": "fs", "root": rec["root"], "fs": rec["fs"], "record": idx, "expect": rec["expect"]["status"]});
        // in-memory file system
        let prefix = "/vr";
        let fake_files: Vec<(String, String)> = tree.files.iter().map(|(r, t)| (format!("{}/{}", prefix, r), t.clone())).collect();
        let mut e = fs_event.clone();
        e["on"] = json!("memory");
        out.push(e);
        record_events(fake_loader(&fake_files, &format!("{}/{}", prefix, tree.root)), prefix, &mut out);
        // real file system
        let dir = PathBuf::from(&workdir).join(format!("lt{}_{}", std::process::id(), idx));
        materialise(&dir, &tree);
        let dir_c = std::fs::canonicalize(&dir).unwrap();
        let strip = dir_c.to_string_lossy().to_string();
        let mut e = fs_event.clone();
        e["on"] = json!("real");
        out.push(e);
        record_events(load::new_loader(dir_c.join(&tree.root)).with_error_renderer(annotate_snippets::Renderer::plain()), &strip, &mut out);
        let _ = std::fs::remove_dir_all(&dir);
        runs += 1;
    }
    let body: Vec<String> = out.iter().map(|v| v.to_string()).collect();
    std::fs::write(output.expect("--out"), body.join("\n") + "\n").unwrap();
    println!("{}", json!({"runs": runs * 2, "events": out.len()}));
}
