//! C06: every input yields output or a diagnostic.  Inputs are the states of
//! spec/Totality.tla's mutation machine.  Each is parsed, formatted, loaded and
//! processed in-process (panics are caught and reported; aborts and hangs are
//! attributed by the runner), and a sample goes through the CLI commands.
use crate::ledger::fake_loader;
use crate::runner::{guarded, viol};
use okane_core::report::{self, query, ReportContext};
use serde_json::{json, Value};
use std::path::PathBuf;

fn site(panic_msg: &str) -> String {
    // "message @ file:line" -> "file:line"
    match panic_msg.rsplit_once(" @ ") {
        Some((_, loc)) => loc.rsplit('/').next().unwrap_or(loc).to_string(),
        None => "unknown".to_string(),
    }
}

pub fn concrete(text: &str) -> String {
    text.replace("⟦NUL⟧", "\u{0}").replace("⟦EMOJI⟧", "😀")
}

pub fn exercise(text: &str, idx: usize, workdir: &str, cli_every: usize, viols: &mut Vec<Value>) -> Vec<String> {
    let mut outcomes = Vec::new();
    let t = text.to_string();
    match guarded(move || crate::synproj::parse_all(&t).map(|v| v.len())) {
        Err(p) => viols.push(viol(&format!("panic_parse:{}", site(&p)), format!("parse_ledger panicked: {}", p))),
        Ok(r) => outcomes.push(format!("parse:{}", if r.is_ok() { "ok" } else { "err" })),
    }
    let t = text.to_string();
    match guarded(move || crate::syntax::format_text(&t).map(|s| s.len())) {
        Err(p) => viols.push(viol(&format!("panic_format:{}", site(&p)), format!("format panicked: {}", p))),
        Ok(r) => outcomes.push(format!("format:{}", if r.is_ok() { "ok" } else { "err" })),
    }
    let files = vec![("/vr/main.ledger".to_string(), text.to_string())];
    match guarded(move || {
        let arena = bumpalo::Bump::new();
        let mut ctx = ReportContext::new(&arena);
        let loader = fake_loader(&files, "/vr/main.ledger");
        let out = match report::process(&mut ctx, loader, &report::ProcessOptions::default()) {
            Ok(mut ledger) => {
                let _ = ledger.balance(&ctx, &query::BalanceQuery::default()).map(|b| b.into_owned().into_vec().len());
                let n = ledger.transactions().count();
                let _ = ledger.eval(&ctx, "(1 X + 2 Y)", &query::EvalContext { date: chrono::NaiveDate::from_ymd_opt(2024, 6, 1).unwrap(), exchange: None });
                format!("process:ok:{}", n)
            }
            Err(e) => { let _ = format!("{}", e); "process:err".to_string() }
        };
        out
    }) {
        Err(p) => viols.push(viol(&format!("panic_process:{}", site(&p)), format!("report::process / queries panicked: {}", p))),
        Ok(o) => outcomes.push(o),
    }
    if cli_every > 0 && idx % cli_every == 0 {
        let dir = PathBuf::from(workdir).join(format!("tt{}_{}", std::process::id(), idx));
        let _ = std::fs::remove_dir_all(&dir);
        std::fs::create_dir_all(&dir).unwrap();
        let p = dir.join("t.ledger");
        std::fs::write(&p, text).unwrap();
        let ps = p.to_string_lossy().to_string();
        for args in [vec!["format", &ps], vec!["balance", &ps], vec!["register", &ps], vec!["accounts", &ps], vec!["primitive", "flatten", &ps],
                     vec!["balance", "-X", "X", &ps]] {
            let a: Vec<String> = args.iter().map(|s| s.to_string()).collect();
            let name = a[..a.len() - 1].join(" ");
            match guarded(move || crate::report::cli(&a)) {
                Err(pm) => viols.push(viol(&format!("panic_cli:{}", site(&pm)), format!("`okane {}` panicked: {}", name, pm))),
                Ok(r) => outcomes.push(format!("cli {}:{}", name, if r.is_ok() { "ok" } else { "err" })),
            }
        }
        let _ = std::fs::remove_dir_all(&dir);
    }
    outcomes
}

/// The ledger a mutated price database is loaded next to: holdings in every commodity the seeds mention.
const PRICE_LEDGER: &str = "commodity USD\n    format 1,000.00 USD\n\n2024/01/05 buy\n    Assets:E    10 EUR @ 1.1 USD\n    Assets:U\n\n2024/02/05 buy\n    Assets:J    1000 JPY\n    Assets:E    -6 EUR\n\n2024/03/05 * hold\n    Assets:C    3 CHF\n    Equity      -3 CHF\n";

/// C06, price-database dimension: the text is a (mutated) price database; it is parsed on its own and
/// loaded through `report::process` next to a fixed valid ledger, then every conversion query is asked.
pub fn exercise_pricedb(text: &str, idx: usize, workdir: &str, viols: &mut Vec<Value>) -> Vec<String> {
    let mut outcomes = Vec::new();
    let dir = PathBuf::from(workdir).join(format!("tp{}_{}", std::process::id(), idx));
    let _ = std::fs::remove_dir_all(&dir);
    std::fs::create_dir_all(&dir).unwrap();
    let dbpath = dir.join("prices.db");
    std::fs::write(&dbpath, text).unwrap();
    let files = vec![("/vr/main.ledger".to_string(), PRICE_LEDGER.to_string())];
    let dbp = dbpath.clone();
    match guarded(move || {
        let arena = bumpalo::Bump::new();
        let mut ctx = ReportContext::new(&arena);
        let loader = fake_loader(&files, "/vr/main.ledger");
        let out = match report::process(&mut ctx, loader, &report::ProcessOptions { price_db_path: Some(dbp) }) {
            Ok(mut ledger) => {
                let mut answered = 0usize;
                for target in ["USD", "EUR", "JPY", "CHF"] {
                    let Some(tc) = ctx.commodity(target) else { continue };
                    for strategy in [query::ConversionStrategy::Historical,
                                     query::ConversionStrategy::UpToDate { now: chrono::NaiveDate::from_ymd_opt(2024, 2, 15).unwrap() },
                                     query::ConversionStrategy::UpToDate { now: chrono::NaiveDate::from_ymd_opt(2030, 1, 1).unwrap() }] {
                        let q = query::BalanceQuery { conversion: Some(query::Conversion { strategy, target: tc }), date_range: query::DateRange::default() };
                        match ledger.balance(&ctx, &q) { Ok(b) => { answered += b.into_owned().into_vec().len().min(1); } Err(e) => { let _ = format!("{}", e); } }
                    }
                    for d in [(2023, 12, 31), (2024, 1, 1), (2024, 2, 29), (2031, 1, 1)] {
                        let ec = query::EvalContext { date: chrono::NaiveDate::from_ymd_opt(d.0, d.1, d.2).unwrap(), exchange: Some(target.to_string()) };
                        match ledger.eval(&ctx, "(1 EUR + 2 JPY + 3 CHF + 4 USD)", &ec) { Ok(_) => answered += 1, Err(e) => { let _ = format!("{}", e); } }
                    }
                }
                format!("process:ok:{}", answered)
            }
            Err(e) => { let m = format!("{}", e); if m.contains("parse") { "parse:err".to_string() } else { "process:err".to_string() } }
        };
        out
    }) {
        Err(p) => viols.push(viol(&format!("panic_process_price_db:{}", site(&p)), format!("report::process with the price database / conversion queries panicked: {}", p))),
        Ok(o) => outcomes.push(o),
    }
    if idx % 10 == 0 {
        let lp = dir.join("t.ledger");
        std::fs::write(&lp, PRICE_LEDGER).unwrap();
        let (ls, ds) = (lp.to_string_lossy().to_string(), dbpath.to_string_lossy().to_string());
        for args in [vec!["balance", "--price-db", &ds, "-X", "USD", &ls], vec!["balance", "--price-db", &ds, "-X", "JPY", "--historical", &ls],
                     vec!["register", "--price-db", &ds, "-X", "EUR", &ls]] {
            let a: Vec<String> = args.iter().map(|s| s.to_string()).collect();
            let name = a[..1].join(" ") + " --price-db -X " + &a[4];
            match guarded(move || crate::report::cli(&a)) {
                Err(pm) => viols.push(viol(&format!("panic_cli:{}", site(&pm)), format!("`okane {}` panicked: {}", name, pm))),
                Ok(r) => outcomes.push(format!("cli {}:{}", name, if r.is_ok() { "ok" } else { "err" })),
            }
        }
    }
    let _ = std::fs::remove_dir_all(&dir);
    outcomes
}

pub fn replay(idx: usize, rec: &Value, workdir: &str) -> Value {
    let text = concrete(rec["text"].as_str().unwrap());
    let mut viols = Vec::new();
    let outcomes = if rec["kind"].as_str() == Some("pricedb") { exercise_pricedb(&text, idx, workdir, &mut viols) } else { exercise(&text, idx, workdir, 10, &mut viols) };
    let op = rec["op"].as_str().unwrap_or("");
    let mut classes = vec![format!("op_{}", op)];
    for o in &outcomes {
        if o.starts_with("parse:") || o.starts_with("process:err") || o.starts_with("process:ok") {
            classes.push(o.split(':').take(2).collect::<Vec<_>>().join("_"));
        }
    }
    json!({"ok": viols.is_empty(), "viol": viols, "classes": classes, "observed": outcomes})
}
