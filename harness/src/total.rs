//! C06: every input yields output or a diagnostic.  Inputs are the states of
//! spec/Totality.tla's mutation machine.  Each is parsed, formatted, loaded and
//! processed in-process (panics are caught and reported; aborts and hangs are
//! attributed by the runner), and a sample goes through the CLI commands.
use crate::ledger::fake_loader;
use crate::runner::{guarded, viol};
use okane_core::report::{self, query, ReportContext};
use serde_json::{json, Value};
use std::path::PathBuf;

fn site(panic_msg: &str) -> String {
    // "message @ file:line" -> "file:line"
    match panic_msg.rsplit_once(" @ ") {
        Some((_, loc)) => loc.rsplit('/').next().unwrap_or(loc).to_string(),
        None => "unknown".to_string(),
    }
}

pub fn concrete(text: &str) -> String {
    text.replace("⟦NUL⟧", "\u{0}").replace("⟦EMOJI⟧", "😀")
}

pub fn exercise(text: &str, idx: usize, workdir: &str, cli_every: usize, viols: &mut Vec<Value>) -> Vec<String> {
    let mut outcomes = Vec::new();
    let t = text.to_string();
    match guarded(move || crate::synproj::parse_all(&t).map(|v| v.len())) {
        Err(p) => viols.push(viol(&format!("panic_parse:{}", site(&p)), format!("parse_ledger panicked: {}", p))),
        Ok(r) => outcomes.push(format!("parse:{}", if r.is_ok() { "ok" } else { "err" })),
    }
    let t = text.to_string();
    match guarded(move || crate::syntax::format_text(&t).map(|s| s.len())) {
        Err(p) => viols.push(viol(&format!("panic_format:{}", site(&p)), format!("format panicked: {}", p))),
        Ok(r) => outcomes.push(format!("format:{}", if r.is_ok() { "ok" } else { "err" })),
    }
    let files = vec![("/vr/main.ledger".to_string(), text.to_string())];
    match guarded(move || {
        let arena = bumpalo::Bump::new();
        let mut ctx = ReportContext::new(&arena);
        let loader = fake_loader(&files, "/vr/main.ledger");
        let out = match report::process(&mut ctx, loader, &report::ProcessOptions::default()) {
            Ok(mut ledger) => {
                let _ = ledger.balance(&ctx, &query::BalanceQuery::default()).map(|b| b.into_owned().into_vec().len());
                let n = ledger.transactions().count();
                let _ = ledger.eval(&ctx, "(1 X + 2 Y)", &query::EvalContext { date: chrono::NaiveDate::from_ymd_opt(2024, 6, 1).unwrap(), exchange: None });
                format!("process:ok:{}", n)
            }
            Err(e) => { let _ = format!("{}", e); "process:err".to_string() }
        };
        out
    }) {
        Err(p) => viols.push(viol(&format!("panic_process:{}", site(&p)), format!("report::process / queries panicked: {}", p))),
        Ok(o) => outcomes.push(o),
    }
    if cli_every > 0 && idx % cli_every == 0 {
        let dir = PathBuf::from(workdir).join(format!("tt{}_{}", std::process::id(), idx));
        let _ = std::fs::remove_dir_all(&dir);
        std::fs::create_dir_all(&dir).unwrap();
        let p = dir.join("t.ledger");
        std::fs::write(&p, text).unwrap();
        let ps = p.to_string_lossy().to_string();
        for args in [vec!["format", &ps], vec!["balance", &ps], vec!["register", &ps], vec!["accounts", &ps], vec!["primitive", "flatten", &ps],
                     vec!["balance", "-X", "X", &ps]] {
            let a: Vec<String> = args.iter().map(|s| s.to_string()).collect();
            let name = a[..a.len() - 1].join(" ");
            match guarded(move || crate::report::cli(&a)) {
                Err(pm) => viols.push(viol(&format!("panic_cli:{}", site(&pm)), format!("`okane {}` panicked: {}", name, pm))),
                Ok(r) => outcomes.push(format!("cli {}:{}", name, if r.is_ok() { "ok" } else { "err" })),
            }
        }
        let _ = std::fs::remove_dir_all(&dir);
    }
    outcomes
}

pub fn replay(idx: usize, rec: &Value, workdir: &str) -> Value {
    let text = concrete(rec["text"].as_str().unwrap());
    let mut viols = Vec::new();
    let outcomes = exercise(&text, idx, workdir, 10, &mut viols);
    let op = rec["op"].as_str().unwrap_or("");
    let mut classes = vec![format!("op_{}", op)];
    for o in &outcomes {
        if o.starts_with("parse:") || o.starts_with("process:err") || o.starts_with("process:ok") {
            classes.push(o.split(':').take(2).collect::<Vec<_>>().join("_"));
        }
    }
    json!({"ok": viols.is_empty(), "viol": viols, "classes": classes, "observed": outcomes})
}
