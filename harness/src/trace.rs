//! Binding B for spec/Ledger.tla: a seeded random driver produces ledgers far
//! outside TLC's exhaustive bound, runs okane's real book-keeping built with
//! `--cfg okane_verif`, and joins the recorded hook events with the abstract
//! input each specification action consumes.  The result is an ndjson trace
//! validated by spec/LedgerTrace.tla.
use crate::ledger::{fake_loader, render};
use crate::runner::guarded;
use okane_core::report::{self, ReportContext};
use rand::rngs::StdRng;
use rand::{Rng, SeedableRng};
use serde_json::{json, Value};
use std::collections::BTreeMap;
use std::io::Write;

const ACCOUNTS: [&str; 6] = ["Assets:Bank", "Assets:Cash", "Expenses:Food", "Income:Salary", "Liabilities:Card", "資産:現金"];
const COMMS: [&str; 4] = ["USD", "EUR", "JPY", "OKN"];

fn q(c: &str, m: i64, s: u32) -> Value {
    json!({"c": c, "v": {"m": m, "s": s}})
}
fn noq() -> Value {
    json!({"c": "~", "v": {"m": 0, "s": 0}})
}
fn noex() -> Value {
    json!({"k": "none", "c": "~", "v": {"m": 0, "s": 0}})
}
fn ex(k: &str, c: &str, m: i64, s: u32) -> Value {
    json!({"k": k, "c": c, "v": {"m": m, "s": s}})
}
fn reg(a: &str, qq: Value, cost: Value, lot: Value, asrt: Value) -> Value {
    json!({"acct": a, "kind": "reg", "q": qq, "cost": cost, "lot": lot, "asrt": asrt})
}
fn omit(a: &str) -> Value {
    json!({"acct": a, "kind": "omit", "q": noq(), "cost": noex(), "lot": noex(), "asrt": noq()})
}
fn assign(a: &str, qq: Value) -> Value {
    json!({"acct": a, "kind": "assign", "q": noq(), "cost": noex(), "lot": noex(), "asrt": qq})
}

/// generator-side bookkeeping, only a heuristic to produce mostly-true assertions
/// (a wrong guess just ends the run with a rejection, which is a valid trace too)
#[derive(Default)]
struct Shadow {
    bal: BTreeMap<String, BTreeMap<String, i64>>, // account -> commodity -> value in 1e-4 units
    alias_a: BTreeMap<String, String>,
    alias_c: BTreeMap<String, String>,
}
impl Shadow {
    fn ca(&self, a: &str) -> String { self.alias_a.get(a).cloned().unwrap_or_else(|| a.to_string()) }
    fn cc(&self, c: &str) -> String { self.alias_c.get(c).cloned().unwrap_or_else(|| c.to_string()) }
    fn add(&mut self, a: &str, c: &str, m: i64, s: u32) {
        let v = m * 10i64.pow(4 - s);
        let (a, c) = (self.ca(a), self.cc(c));
        *self.bal.entry(a).or_default().entry(c).or_default() += v;
    }
    fn get(&self, a: &str, c: &str) -> i64 {
        self.bal.get(&self.ca(a)).and_then(|m| m.get(&self.cc(c))).copied().unwrap_or(0)
    }
}

fn norm(mut v: i64) -> (i64, u32) {
    // value in 1e-4 units -> (m, s) minimal
    let mut s = 4u32;
    while s > 0 && v % 10 == 0 { v /= 10; s -= 1; }
    (v, s)
}

pub fn gen_ledger(rng: &mut StdRng) -> Value {
    let mut entries: Vec<Value> = Vec::new();
    let mut sh = Shadow::default();
    let ntx = rng.gen_range(3..=18);
    // declarations first (sometimes later)
    let mut acct_names: Vec<String> = ACCOUNTS.iter().map(|s| s.to_string()).collect();
    let mut comm_names: Vec<String> = COMMS.iter().map(|s| s.to_string()).collect();
    if rng.gen_bool(0.5) {
        entries.push(json!({"k": "acct", "name": "Assets:Bank", "aliases": ["bank", "B"]}));
        sh.alias_a.insert("bank".into(), "Assets:Bank".into());
        sh.alias_a.insert("B".into(), "Assets:Bank".into());
        acct_names.push("bank".into());
        acct_names.push("B".into());
    }
    if rng.gen_bool(0.5) {
        let prec: i64 = *[-1i64, 0, 2, 1].get(rng.gen_range(0..4)).unwrap();
        entries.push(json!({"k": "cmdt", "name": "USD", "aliases": ["$$", "usd"], "prec": prec}));
        sh.alias_c.insert("usd".into(), "USD".into());
        sh.alias_c.insert("$$".into(), "USD".into());
        comm_names.push("usd".into());
    }
    if rng.gen_bool(0.3) {
        entries.push(json!({"k": "cmdt", "name": "JPY", "aliases": [], "prec": 0}));
    }
    let mut date = 1i64;
    for _ in 0..ntx {
        if rng.gen_bool(0.6) { date = (date + rng.gen_range(0..3)).min(28); }
        if rng.gen_bool(0.008) {
            // late declaration, possibly conflicting
            let n = acct_names[rng.gen_range(0..acct_names.len())].clone();
            let al = acct_names[rng.gen_range(0..acct_names.len())].clone();
            entries.push(json!({"k": "acct", "name": n, "aliases": [al]}));
            if !sh.alias_a.contains_key(&al) && !sh.bal.contains_key(&al) { /* shadow stays heuristic */ }
        }
        let a1 = acct_names[rng.gen_range(0..acct_names.len())].clone();
        let mut a2 = acct_names[rng.gen_range(0..acct_names.len())].clone();
        if sh.ca(&a2) == sh.ca(&a1) { a2 = "Equity:Opening".to_string(); }
        let c1 = comm_names[rng.gen_range(0..comm_names.len())].clone();
        let mut c2 = comm_names[rng.gen_range(0..comm_names.len())].clone();
        if sh.cc(&c2) == sh.cc(&c1) { c2 = "CHF".to_string(); }
        let s1 = rng.gen_range(0..=2u32);
        let m1: i64 = { let m = rng.gen_range(1..=9999i64); if rng.gen_bool(0.4) { -m } else { m } };
        let mut posts: Vec<Value> = Vec::new();
        let mut shape = rng.gen_range(0..100);
        if shape >= 90 && rng.gen_bool(0.75) { shape %= 90; }
        let assert_ok = |sh: &Shadow, a: &str, c: &str, rng: &mut StdRng| -> Value {
            // assertion on (a, c) reflecting the shadow balance, rarely off by one
            let v = sh.get(a, c) + if rng.gen_bool(0.04) { 10000 } else { 0 };
            let (m, s) = norm(v);
            q(c, m, s)
        };
        match shape {
            0..=24 => {
                // simple balanced pair, maybe an assertion on the first
                sh.add(&a1, &c1, m1, s1);
                let asrt = if rng.gen_bool(0.4) { assert_ok(&sh, &a1, &c1, rng) } else { noq() };
                posts.push(reg(&a1, q(&c1, m1, s1), noex(), noex(), asrt));
                sh.add(&a2, &c1, -m1, s1);
                posts.push(reg(&a2, q(&c1, -m1, s1), noex(), noex(), noq()));
            }
            25..=44 => {
                // omitted posting absorbs; regular postings come first or last
                let third = rng.gen_bool(0.4);
                let m3 = rng.gen_range(1..=500i64);
                let mut regs = vec![(a1.clone(), c1.clone(), m1, s1)];
                if third { regs.push((a1.clone(), c2.clone(), m3, 0)); }
                let omit_first = rng.gen_bool(0.3);
                if omit_first { posts.push(omit(&a2)); }
                for (a, c, m, s) in &regs {
                    sh.add(a, c, *m, *s);
                    // never assert on the omitted posting's account after it (DESIGN C02: deferred shape)
                    posts.push(reg(a, q(c, *m, *s), noex(), noex(), noq()));
                }
                if !omit_first { posts.push(omit(&a2)); }
                for (_, c, m, s) in &regs { sh.add(&a2, c, -*m, *s); }
            }
            45..=59 => {
                // cost: q c1 @ r c2  against  -(q*r) c2
                let (rm, rs) = (rng.gen_range(1..=999i64), rng.gen_range(0..=2u32));
                let total = rng.gen_bool(0.3);
                let mq = rng.gen_range(1..=999i64) * if rng.gen_bool(0.3) { -1 } else { 1 };
                sh.add(&a1, &c1, mq, 0);
                if total {
                    posts.push(reg(&a1, q(&c1, mq, 0), ex("total", &c2, rm, rs), noex(), noq()));
                    let sign = if mq < 0 { 1 } else { -1 };
                    sh.add(&a2, &c2, sign * rm, rs);
                    posts.push(reg(&a2, q(&c2, sign * rm, rs), noex(), noex(), noq()));
                } else {
                    let as_lot = rng.gen_bool(0.3);
                    let (cost, lot) = if as_lot { (noex(), ex("rate", &c2, rm, rs)) } else { (ex("rate", &c2, rm, rs), noex()) };
                    posts.push(reg(&a1, q(&c1, mq, 0), cost, lot, noq()));
                    if rng.gen_bool(0.5) {
                        sh.add(&a2, &c2, -mq * rm, rs);
                        posts.push(reg(&a2, q(&c2, -mq * rm, rs), noex(), noex(), noq()));
                    } else {
                        sh.add(&a2, &c2, -mq * rm, rs);
                        posts.push(omit(&a2));
                    }
                }
            }
            60..=69 => {
                // implied exchange between two commodities
                let m2 = rng.gen_range(1..=9999i64);
                sh.add(&a1, &c1, m1.abs(), s1);
                posts.push(reg(&a1, q(&c1, m1.abs(), s1), noex(), noex(), noq()));
                sh.add(&a2, &c2, -m2, 0);
                posts.push(reg(&a2, q(&c2, -m2, 0), noex(), noex(), noq()));
            }
            70..=81 => {
                // assignment: account set to a value, the rest absorbed
                let target = rng.gen_range(0..=2000i64);
                let bare = rng.gen_bool(0.2);
                if bare {
                    posts.push(assign(&a1, json!({"c": "", "v": {"m": 0, "s": 0}})));
                    sh.bal.remove(&sh.ca(&a1));
                    // the inferred amounts are unknown to the shadow for a2; fine
                } else {
                    posts.push(assign(&a1, q(&c1, target, 0)));
                    let old = sh.get(&a1, &c1);
                    let (ca, cc) = (sh.ca(&a1), sh.cc(&c1));
                    sh.bal.entry(ca).or_default().insert(cc, target * 10000);
                    let (dm, ds) = norm(-(target * 10000 - old));
                    sh.add(&a2, &c1, dm, ds);
                }
                posts.push(omit(&a2));
            }
            82..=89 => {
                // three postings summing to zero with mixed scales, assertion on the last
                let ma = rng.gen_range(1..=5000i64);
                let mb = rng.gen_range(1..=5000i64);
                sh.add(&a1, &c1, ma, 2);
                posts.push(reg(&a1, q(&c1, ma, 2), noex(), noex(), noq()));
                sh.add(&a1, &c1, mb * 10, 2);
                posts.push(reg(&a1, q(&c1, mb, 1), noex(), noex(), noq()));
                sh.add(&a2, &c1, -(ma + mb * 10), 2);
                let asrt = if rng.gen_bool(0.5) { assert_ok(&sh, &a2, &c1, rng) } else { noq() };
                posts.push(reg(&a2, q(&c1, -(ma + mb * 10), 2), noex(), noex(), asrt));
            }
            90..=93 => {
                // fault: unbalanced (or balanced only after rounding to a declared precision)
                posts.push(reg(&a1, q(&c1, m1, s1), noex(), noex(), noq()));
                let off = rng.gen_range(1..=9i64);
                posts.push(reg(&a2, q(&c1, -m1 * 10 + off, s1 + 1), noex(), noex(), noq()));
                sh.add(&a1, &c1, m1, s1);
                sh.add(&a2, &c1, -m1 * 10 + off, s1 + 1);
            }
            94..=95 => {
                posts.push(omit(&a1));
                posts.push(reg(&a2, q(&c1, m1, s1), noex(), noex(), noq()));
                posts.push(omit("Equity:Opening"));
            }
            96 => {
                posts.push(reg(&a1, q(&c1, m1, s1), ex("rate", &c2, 0, 0), noex(), noq()));
                posts.push(omit(&a2));
            }
            97 => {
                posts.push(reg(&a1, q(&c1, m1, s1), ex("rate", &c1, 2, 0), noex(), noq()));
                posts.push(omit(&a2));
            }
            98 => {
                // zero quantity with a total cost: balances, no price derivable
                posts.push(reg(&a1, q(&c1, 0, 0), ex("total", &c2, 5, 0), noex(), noq()));
                posts.push(reg(&a2, q(&c2, -5, 0), noex(), noex(), noq()));
                sh.add(&a2, &c2, -5, 0);
            }
            _ => {
                // bare zero and zero-valued commodities next to a balanced pair
                posts.push(reg(&a1, json!({"c": "", "v": {"m": 0, "s": 0}}), noex(), noex(), noq()));
                posts.push(reg(&a1, q(&c2, 0, 0), noex(), noex(), noq()));
                sh.add(&a1, &c1, m1, s1);
                posts.push(reg(&a1, q(&c1, m1, s1), noex(), noex(), noq()));
                sh.add(&a2, &c1, -m1, s1);
                posts.push(reg(&a2, q(&c1, -m1, s1), noex(), noex(), noq()));
            }
        }
        entries.push(json!({"k": "txn", "date": date, "posts": posts}));
    }
    Value::Array(entries)
}

/// Runs the hooked book-keeping on `input`, returns the joined events of this run.
pub fn record(input: &Value) -> Result<Vec<Value>, String> {
    let r = render(input);
    let files = vec![("/ledger/main.ledger".to_string(), r.text.clone())];
    okane_core::verif::start();
    let res = guarded(|| {
        let arena = bumpalo::Bump::new();
        let mut ctx = ReportContext::new(&arena);
        let loader = fake_loader(&files, "/ledger/main.ledger");
        let res = report::process(&mut ctx, loader, &report::ProcessOptions::default());
        let ok = res.is_ok();
        let msg = res.as_ref().err().map(|e| e.to_string());
        drop(res);
        (ok, msg)
    });
    let raw = okane_core::verif::take();
    let (_ok, _msg) = match res {
        Ok(x) => x,
        Err(p) => return Err(format!("panic: {}\n{}", p, r.text)),
    };
    // join with the abstract input
    let entries = input.as_array().unwrap();
    let mut out = Vec::new();
    let mut ei = 0usize; // entries begun
    let mut pi = 0usize; // postings logged in the current txn
    let mut in_txn = false;
    for line in raw {
        let mut ev: Value = serde_json::from_str(&line).map_err(|e| format!("bad hook event {}: {}", line, e))?;
        match ev["ev"].as_str().unwrap_or("") {
            "decl" => {
                let e = entries.get(ei).ok_or("decl event beyond input")?;
                ei += 1;
                ev["e"] = norm_entry(e);
            }
            "txn" => {
                let e = entries.get(ei).ok_or("txn event beyond input")?;
                ei += 1;
                pi = 0;
                in_txn = true;
                ev["date"] = e["date"].clone();
            }
            "post" => {
                let e = &entries[ei - 1];
                ev["p"] = e["posts"][pi].clone();
                pi += 1;
                if ev["price"].is_null() {
                    ev["hasprice"] = json!(false);
                    ev["price"] = json!({"x": {"c": "~", "m": 0, "s": 0}, "y": {"c": "~", "m": 0, "s": 0}});
                } else {
                    ev["hasprice"] = json!(true);
                }
            }
            "commit" => { in_txn = false; }
            "reject" => {
                // which action consumed the offending input?
                if in_txn {
                    let e = &entries[ei - 1];
                    let n = e["posts"].as_array().unwrap().len();
                    if pi < n {
                        ev["stage"] = json!("post");
                        ev["p"] = e["posts"][pi].clone();
                    } else {
                        ev["stage"] = json!("commit");
                    }
                } else {
                    let e = entries.get(ei).ok_or("reject event beyond input")?;
                    ev["stage"] = json!("decl");
                    ev["e"] = norm_entry(e);
                }
            }
            "done" => {}
            // the loader's own events (core/src/load.rs) belong to LoaderTrace.tla
            "enter" | "deliver" | "descend" | "notfound" | "cycle" | "io" | "return" => continue,
            other => return Err(format!("unknown hook event {}", other)),
        }
        out.push(ev);
    }
    Ok(out)
}

fn norm_entry(e: &Value) -> Value {
    let mut e = e.clone();
    if e["k"] == "acct" {
        e["prec"] = json!(-1);
    }
    e
}

/// `vh ledger-trace --seed S --runs N --out FILE --inputs FILE2`
pub fn main(args: &[String]) {
    let mut seed = 1u64;
    let mut runs = 100usize;
    let mut out = String::from("trace.ndjson");
    let mut inputs = String::from("trace-inputs.ndjson");
    let mut from: Option<String> = None;
    let mut i = 0;
    while i < args.len() {
        match args[i].as_str() {
            "--seed" => { seed = args[i + 1].parse().unwrap(); i += 1; }
            "--runs" => { runs = args[i + 1].parse().unwrap(); i += 1; }
            "--out" => { out = args[i + 1].clone(); i += 1; }
            "--inputs" => { inputs = args[i + 1].clone(); i += 1; }
            "--from" => { from = Some(args[i + 1].clone()); i += 1; }
            _ => {}
        }
        i += 1;
    }
    crate::runner::install_panic_hook();
    let mut rng = StdRng::seed_from_u64(seed);
    let mut fo = std::io::BufWriter::new(std::fs::File::create(&out).unwrap());
    let mut fi = std::io::BufWriter::new(std::fs::File::create(&inputs).unwrap());
    let given: Option<Vec<Value>> = from.map(|p| {
        std::fs::read_to_string(p).unwrap().lines().filter(|l| !l.trim().is_empty())
            .map(|l| { let v: Value = serde_json::from_str(l).unwrap(); if v.get("input").is_some() { v["input"].clone() } else { v } }).collect()
    });
    let n = given.as_ref().map(|g| g.len()).unwrap_or(runs);
    let mut events = 0usize;
    for k in 0..n {
        let input = match &given { Some(g) => g[k].clone(), None => gen_ledger(&mut rng) };
        match record(&input) {
            Ok(evs) => {
                let first = events + 1;
                for e in &evs {
                    writeln!(fo, "{}", e).unwrap();
                }
                events += evs.len();
                writeln!(fo, "{}", json!({"ev": "reset", "run": k})).unwrap();
                events += 1;
                writeln!(fi, "{}", json!({"run": k, "first_event": first, "last_event": events, "input": input, "panic": Value::Null})).unwrap();
            }
            Err(m) => {
                writeln!(fi, "{}", json!({"run": k, "first_event": 0, "last_event": 0, "input": input, "panic": m})).unwrap();
            }
        }
    }
    println!("{}", json!({"runs": n, "events": events}));
}
