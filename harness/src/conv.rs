//! C10: converted balance reports of the real code compared with spec/Convert.tla.
use crate::ledger::{amount_map, dec, fake_loader, render};
use crate::price::{day_str, rate_dec};
use crate::report::{cli, parse_balance_output, to_date, NO_BOUND};
use crate::runner::{guarded, viol};
use okane_core::report::{self, query, ReportContext};
use rust_decimal::Decimal;
use serde_json::{json, Value};
use std::collections::BTreeMap;
use std::path::PathBuf;

fn check_result(q: &Value, got: &Result<BTreeMap<String, BTreeMap<String, Decimal>>, String>, how: &str) -> Option<Value> {
    let target = q["target"].as_str().unwrap();
    let res = q["res"].as_object().cloned().unwrap_or_default();
    let fails = res.values().any(|r| r["ok"] == false);
    let desc = format!("{} -X {} now={} range=[{},{}) via {}", q["strategy"].as_str().unwrap(), target, q["now"], q["s"], q["e"], how);
    match got {
        Err(e) => {
            if !fails {
                return Some(viol("conversion_failed", format!("{}: okane fails ({}), every needed rate exists", desc, e)));
            }
        }
        Ok(m) => {
            if fails {
                return Some(viol("missing_rate_not_reported", format!("{}: okane reports {:?} although a needed rate is unavailable", desc, m)));
            }
            for (a, r) in &res {
                let vals: Vec<Decimal> = r["vals"].as_array().unwrap().iter().map(dec).collect();
                let gm = m.get(a).cloned().unwrap_or_default();
                if gm.keys().any(|c| c != target) {
                    return Some(viol("unconverted_amount", format!("{}: account {} still shows {:?}", desc, a, gm)));
                }
                let g = gm.get(target).cloned().unwrap_or(Decimal::ZERO);
                if !vals.iter().any(|v| *v == g) {
                    return Some(viol("wrong_converted_amount", format!("{}: account {} shows {} {}, admissible values are {:?}", desc, a, g, target, vals)));
                }
            }
            for a in m.keys() {
                if !res.contains_key(a) {
                    return Some(viol("unexpected_account", format!("{}: account {} is reported but has no postings", desc, a)));
                }
            }
        }
    }
    None
}

pub fn replay(idx: usize, rec: &Value, workdir: &str) -> Value {
    let r = render(&rec["input"]);
    let dir = PathBuf::from(workdir).join(format!("conv{}", std::process::id()));
    std::fs::create_dir_all(&dir).unwrap();
    let dbpath = dir.join(format!("p{}.db", idx));
    let mut db_txt = String::new();
    for e in rec["db"].as_array().unwrap() {
        db_txt.push_str(&format!("P {} {} {} {}\n", day_str(e["date"].as_i64().unwrap()), e["of"].as_str().unwrap(), rate_dec(&e["r"]), e["with"].as_str().unwrap()));
    }
    let has_db = !db_txt.is_empty();
    if has_db { std::fs::write(&dbpath, &db_txt).unwrap(); }
    let files = vec![("/ledger/main.ledger".to_string(), r.text.clone())];
    let queries: Vec<Value> = rec["queries"].as_array().unwrap().clone();
    let res = guarded(|| {
        let mut viols = Vec::new();
        let arena = bumpalo::Bump::new();
        let mut ctx = ReportContext::new(&arena);
        let loader = fake_loader(&files, "/ledger/main.ledger");
        let opts = report::ProcessOptions { price_db_path: if has_db { Some(dbpath.clone()) } else { None } };
        let res = report::process(&mut ctx, loader, &opts);
        let mut ledger = match res {
            Ok(l) => l,
            Err(e) => { viols.push(viol("rejected_valid", format!("{}", e))); return viols; }
        };
        for q in &queries {
            let target = q["target"].as_str().unwrap();
            let tc = match ctx.commodity(target) {
                Some(c) => c,
                // a target that occurs nowhere (neither ledger nor price database) is outside the claim
                None => continue,
            };
            let strategy = if q["strategy"] == "historical" { query::ConversionStrategy::Historical }
                           else { query::ConversionStrategy::UpToDate { now: to_date(q["now"].as_i64().unwrap()).unwrap() } };
            let bq = query::BalanceQuery {
                conversion: Some(query::Conversion { strategy, target: tc }),
                date_range: query::DateRange { start: to_date(q["s"].as_i64().unwrap()), end: to_date(q["e"].as_i64().unwrap()) },
            };
            let got = match ledger.balance(&ctx, &bq) {
                Ok(b) => {
                    let mut m = BTreeMap::new();
                    for (a, am) in b.into_owned().into_vec() {
                        let mm = amount_map(&am);
                        if !mm.is_empty() { m.insert(a.as_str().to_string(), mm); }
                    }
                    Ok(m)
                }
                Err(e) => Err(format!("{}", e)),
            };
            if let Some(v) = check_result(q, &got, "Ledger::balance") {
                viols.push(v);
                if viols.len() >= 3 { break; }
            }
        }
        viols
    });
    let mut viols = match res { Ok(v) => v, Err(p) => vec![viol("panic", p)] };
    // the CLI on a sample
    if viols.is_empty() && idx % 8 == 0 {
        let path = dir.join(format!("l{}.ledger", idx));
        std::fs::write(&path, &r.text).unwrap();
        let known = |t: &str| r.text.split_whitespace().any(|w| w == t) || db_txt.split_whitespace().any(|w| w == t);
        for q in queries.iter().step_by(7) {
            if !known(q["target"].as_str().unwrap()) { continue; }
            let mut args = vec!["balance".to_string(), "-X".to_string(), q["target"].as_str().unwrap().to_string()];
            if q["strategy"] == "historical" { args.push("--historical".into()); }
            else { args.push(format!("--now={}", to_date(q["now"].as_i64().unwrap()).unwrap())); }
            if q["s"].as_i64().unwrap() != NO_BOUND { args.push(format!("--start={}", to_date(q["s"].as_i64().unwrap()).unwrap())); }
            if q["e"].as_i64().unwrap() != NO_BOUND { args.push(format!("--end={}", to_date(q["e"].as_i64().unwrap()).unwrap())); }
            if has_db { args.push(format!("--price-db={}", dbpath.display())); }
            args.push(path.to_string_lossy().to_string());
            let got = match guarded(|| cli(&args)) {
                Ok(Ok(out)) => match parse_balance_output(&out) { Some(m) => Ok(m), None => Err(format!("unparsable output {:?}", out)) },
                Ok(Err(e)) => Err(e),
                Err(p) => { viols.push(viol("panic", p)); continue; }
            };
            if let Some(v) = check_result(q, &got, "okane balance") { viols.push(v); break; }
        }
        let _ = std::fs::remove_file(&path);
    }
    let _ = std::fs::remove_file(&dbpath);
    let mut classes = vec!["converted".to_string()];
    if has_db { classes.push("pricedb".into()); }
    if rec["prec"].as_object().map(|o| !o.is_empty()).unwrap_or(false) { classes.push("precision".into()); }
    json!({"ok": viols.is_empty(), "viol": viols, "classes": classes,
           "text": if viols.is_empty() { Value::Null } else { json!({"ledger": r.text, "pricedb": db_txt}) }})
}
