//! Binding A for spec/Ledger.tla: renders an abstract ledger (the `input` of a
//! TLC behaviour) as ledger text, runs okane's real book-keeping on it and
//! projects the result onto the specification's state (verdict, rejected
//! entry, register amounts, balances).
use crate::runner::{guarded, viol};
use okane_core::report::{self, query, ReportContext};
use okane_core::{load, report::ReportError};
use rust_decimal::Decimal;
use serde_json::{json, Map, Value};
use std::collections::{BTreeMap, HashMap};
use std::path::PathBuf;

pub type AmtMap = BTreeMap<String, Decimal>;

thread_local! {
    /// Power of ten that every number of the behaviour being replayed is multiplied with (inputs and expectations alike).
    /// Book-keeping without declared precisions, costs or lots is homogeneous: scaling every amount by the same positive
    /// factor scales every balance and changes no verdict, so the Plain behaviours are replayed a second time far from
    /// the small integers of the bounded model (see `replay`).
    static MAGNITUDE: std::cell::Cell<u32> = const { std::cell::Cell::new(0) };
}

pub fn dec(v: &Value) -> Decimal {
    let d = Decimal::new(v["m"].as_i64().unwrap(), v["s"].as_u64().unwrap() as u32);
    let k = MAGNITUDE.with(|m| m.get());
    if k == 0 { d } else { d * Decimal::from_i128_with_scale(10i128.pow(k), 0) }
}

pub fn dec_str(v: &Value) -> String {
    dec(v).to_string()
}

/// `{"X": {m,s}, ..}` (or `[]` for the empty function) -> map without zero entries
pub fn amt(v: &Value) -> AmtMap {
    let mut m = AmtMap::new();
    if let Some(o) = v.as_object() {
        for (k, d) in o {
            let d = dec(d);
            if !d.is_zero() {
                m.insert(k.clone(), d);
            }
        }
    }
    m
}

pub fn amt_json(m: &AmtMap) -> Value {
    let mut o = Map::new();
    for (k, v) in m {
        o.insert(k.clone(), json!(v.to_string()));
    }
    Value::Object(o)
}

fn is_noq(q: &Value) -> bool {
    q["c"] == "~"
}

fn quantity(q: &Value) -> String {
    let c = q["c"].as_str().unwrap();
    if c.is_empty() {
        dec_str(&q["v"])
    } else {
        format!("{} {}", dec_str(&q["v"]), c)
    }
}

pub struct Rendered {
    pub text: String,
    /// (first line, last line) of each entry, 1-based
    pub entry_lines: Vec<(usize, usize)>,
    /// line of each posting of each entry
    pub post_lines: Vec<Vec<usize>>,
}

pub fn render_posting(p: &Value) -> String {
    let mut s = format!("    {}", p["acct"].as_str().unwrap());
    match p["kind"].as_str().unwrap() {
        "omit" => {}
        "assign" => {
            s.push_str(&format!("  = {}", quantity(&p["asrt"])));
        }
        _ => {
            s.push_str(&format!("  {}", quantity(&p["q"])));
            let lot = &p["lot"];
            match lot["k"].as_str().unwrap() {
                "rate" => s.push_str(&format!(" {{{}}}", quantity(lot))),
                "total" => s.push_str(&format!(" {{{{{}}}}}", quantity(lot))),
                _ => {}
            }
            let cost = &p["cost"];
            match cost["k"].as_str().unwrap() {
                "rate" => s.push_str(&format!(" @ {}", quantity(cost))),
                "total" => s.push_str(&format!(" @@ {}", quantity(cost))),
                _ => {}
            }
            if !is_noq(&p["asrt"]) {
                s.push_str(&format!(" = {}", quantity(&p["asrt"])));
            }
        }
    }
    s
}

pub fn date_str(d: i64) -> String {
    format!("2024/01/{:02}", d)
}

pub fn render(input: &Value) -> Rendered {
    render_with(input, false)
}

/// `format_first`: in a commodity declaration the `format` sub-directive precedes the aliases
/// (the order of sub-directives carries no meaning; both orders are exercised).
pub fn render_with(input: &Value, format_first: bool) -> Rendered {
    let mut text = String::new();
    let mut entry_lines = Vec::new();
    let mut post_lines = Vec::new();
    let mut line = 1usize;
    for (i, e) in input.as_array().unwrap().iter().enumerate() {
        let start = line;
        let mut pl = Vec::new();
        match e["k"].as_str().unwrap() {
            "txn" => {
                text.push_str(&format!("{} entry {}\n", date_str(e["date"].as_i64().unwrap()), i + 1));
                line += 1;
                for p in e["posts"].as_array().unwrap() {
                    text.push_str(&render_posting(p));
                    text.push('\n');
                    pl.push(line);
                    line += 1;
                }
            }
            "acct" => {
                text.push_str(&format!("account {}\n", e["name"].as_str().unwrap()));
                line += 1;
                for a in e["aliases"].as_array().unwrap() {
                    text.push_str(&format!("    alias {}\n", a.as_str().unwrap()));
                    line += 1;
                }
            }
            "cmdt" => {
                text.push_str(&format!("commodity {}\n", e["name"].as_str().unwrap()));
                line += 1;
                let prec = e["prec"].as_i64().unwrap();
                let fmt_line = if prec >= 0 {
                    let frac = if prec > 0 { format!(".{}", "0".repeat(prec as usize)) } else { String::new() };
                    Some(format!("    format 1,000{} {}\n", frac, e["name"].as_str().unwrap()))
                } else { None };
                if format_first {
                    if let Some(f) = &fmt_line { text.push_str(f); line += 1; }
                }
                for a in e["aliases"].as_array().unwrap() {
                    text.push_str(&format!("    alias {}\n", a.as_str().unwrap()));
                    line += 1;
                }
                if !format_first {
                    if let Some(f) = &fmt_line { text.push_str(f); line += 1; }
                }
            }
            k => panic!("unknown entry kind {}", k),
        }
        entry_lines.push((start, line - 1));
        post_lines.push(pl);
        text.push('\n');
        line += 1;
    }
    Rendered { text, entry_lines, post_lines }
}

#[derive(Debug, Clone)]
pub struct Rejection {
    pub class: String, // "bookkeep" | "load" | "pricedb"
    pub kind: String,  // BookKeepError variant name
    pub origin_line: Option<usize>,
    pub lines: Vec<usize>,
    pub computed: Option<String>,
    pub text: String,
}

#[derive(Debug, Clone)]
pub struct Accepted {
    pub reg: Vec<(String, Vec<(String, AmtMap)>)>, // (date, [(account, amount)])
    pub bal: BTreeMap<String, AmtMap>,
    /// (account, commodity) pairs that the balance report holds with an exactly zero value
    /// (Report.tla NoZeroCommodity: balances never keep a cancelled-out commodity)
    pub zero_entries: Vec<(String, String)>,
    /// query-side lookups (Ledger.tla Lookup): ("acct"|"cmdt", name) -> what the name answers with
    pub lookups: Vec<LookupObs>,
}

#[derive(Debug, Clone, PartialEq)]
pub struct LookupObs {
    pub table: &'static str,
    pub name: String,
    /// ReportContext::account / ::commodity
    pub resolved: Option<String>,
    /// accounts: number of postings `Ledger::postings` lists for the name; commodities: `Ledger::eval("1 <name>")` as printed
    pub answer: String,
}

thread_local! {
    /// the names the next `run_process` asks the loaded ledger about (accounts, commodities)
    pub static QUERY_NAMES: std::cell::RefCell<(Vec<String>, Vec<String>)> = std::cell::RefCell::new((Vec::new(), Vec::new()));
}

pub enum Outcome {
    Ok(Accepted),
    Rej(Rejection),
    Panic(String),
}

pub fn parse_rejection(err: &ReportError) -> Rejection {
    let text = format!("{}", err);
    let (class, kind) = match err {
        ReportError::BookKeep(e, _) => {
            let d = format!("{:?}", e);
            let k: String = d.chars().take_while(|c| c.is_alphanumeric()).collect();
            ("bookkeep".to_string(), k)
        }
        ReportError::Load(e) => ("load".to_string(), format!("{:?}", e).chars().take_while(|c| c.is_alphanumeric()).collect()),
        ReportError::PriceDB(_) => ("pricedb".to_string(), String::new()),
    };
    let mut origin_line = None;
    let mut lines = Vec::new();
    let mut computed = None;
    for l in text.lines() {
        let t = l.trim_start();
        if let Some(rest) = t.strip_prefix("--> ") {
            // path:L:C
            let parts: Vec<&str> = rest.rsplitn(3, ':').collect();
            if parts.len() == 3 {
                origin_line = parts[1].parse().ok();
            }
        } else if let Some(pos) = t.find(" |") {
            if let Ok(n) = t[..pos].trim().parse::<usize>() {
                lines.push(n);
            }
        }
        // the computed balance as the diagnostic words it today; the wording is not part of any property, so
        // other plausible wordings and the error value's own field are read as well
        for phrase in ["computed balance: ", "computed balance is ", "computed balance was ", "actual balance: ", "actual balance is "] {
            if computed.is_none() {
                if let Some(p) = l.find(phrase) {
                    computed = Some(l[p + phrase.len()..].trim().to_string());
                }
            }
        }
    }
    if computed.is_none() {
        if let ReportError::BookKeep(e, _) = err {
            let d = format!("{:?}", e);
            if let Some(p) = d.find("computed: \"") {
                let rest = &d[p + "computed: \"".len()..];
                if let Some(q) = rest.find('"') {
                    computed = Some(rest[..q].to_string());
                }
            }
        }
    }
    Rejection { class, kind, origin_line, lines, computed, text }
}

pub fn amount_map(a: &report::Amount) -> AmtMap {
    let mut m = AmtMap::new();
    for s in a.iter() {
        let txt = s.to_string(); // "value commodity"
        let (v, c) = txt.split_once(' ').unwrap();
        let d: Decimal = v.parse().unwrap();
        if !d.is_zero() {
            m.insert(c.to_string(), d);
        }
    }
    m
}

pub fn fake_loader(files: &[(String, String)], root: &str) -> load::Loader<load::FakeFileSystem> {
    let mut m: HashMap<PathBuf, Vec<u8>> = HashMap::new();
    for (p, c) in files {
        m.insert(PathBuf::from(p), c.as_bytes().to_vec());
    }
    load::Loader::new(PathBuf::from(root), load::FakeFileSystem::from(m))
        .with_error_renderer(annotate_snippets::Renderer::plain())
}

pub fn project_ledger<'c>(ctx: &ReportContext<'c>, ledger: &mut query::Ledger<'c>) -> Result<Accepted, String> {
    let mut reg = Vec::new();
    for t in ledger.transactions() {
        let mut ps = Vec::new();
        for p in t.postings.iter() {
            ps.push((p.account.as_str().to_string(), amount_map(&p.amount)));
        }
        reg.push((t.date.format("%Y/%m/%d").to_string(), ps));
    }
    let mut bal = BTreeMap::new();
    let b = ledger
        .balance(ctx, &query::BalanceQuery::default())
        .map_err(|e| format!("balance query failed: {}", e))?
        .into_owned();
    let mut zero_entries = Vec::new();
    for (a, amt) in b.into_vec() {
        for single in amt.iter() {
            let txt = single.to_string();
            if let Some((v, c)) = txt.split_once(' ') {
                if v.parse::<Decimal>().map(|d| d.is_zero()).unwrap_or(false) {
                    zero_entries.push((a.as_str().to_string(), c.to_string()));
                }
            }
        }
        let m = amount_map(&amt);
        if !m.is_empty() {
            bal.insert(a.as_str().to_string(), m);
        }
    }
    let (qa, qc) = QUERY_NAMES.with(|q| q.borrow().clone());
    let mut lookups = Vec::new();
    for n in qa {
        let resolved = ctx.account(&n).map(|a| a.as_str().to_string());
        let count = ledger.postings(ctx, &query::PostingQuery { account: Some(n.clone()) }).len();
        lookups.push(LookupObs { table: "acct", name: n, resolved, answer: count.to_string() });
    }
    for n in qc {
        let resolved = ctx.commodity(&n).map(|c| c.as_str().to_string());
        let ec = query::EvalContext { date: chrono::NaiveDate::from_ymd_opt(2024, 1, 1).unwrap(), exchange: None };
        let answer = match ledger.eval(ctx, &format!("1 {}", n), &ec) { Ok(a) => format!("{}", a.as_inline_display()), Err(e) => format!("error: {}", e) };
        lookups.push(LookupObs { table: "cmdt", name: n, resolved, answer });
    }
    Ok(Accepted { reg, bal, zero_entries, lookups })
}

pub fn run_process(text: &str) -> Outcome {
    let files = vec![("/ledger/main.ledger".to_string(), text.to_string())];
    let r = guarded(|| {
        let arena = bumpalo::Bump::new();
        let mut ctx = ReportContext::new(&arena);
        let loader = fake_loader(&files, "/ledger/main.ledger");
        let res = report::process(&mut ctx, loader, &report::ProcessOptions::default());
        let out = match res {
            Ok(mut ledger) => match project_ledger(&ctx, &mut ledger) {
                Ok(a) => Outcome::Ok(a),
                Err(m) => Outcome::Panic(m),
            },
            Err(e) => Outcome::Rej(parse_rejection(&e)),
        };
        out
    });
    match r {
        Ok(o) => o,
        Err(p) => Outcome::Panic(p),
    }
}

/// parses "2 X", "(1 X + -2 Y)", "0" as printed by as_inline_display
pub fn parse_inline_amount(s: &str) -> Option<AmtMap> {
    let t = s.trim();
    let t = t.strip_prefix('(').and_then(|x| x.strip_suffix(')')).unwrap_or(t);
    let mut m = AmtMap::new();
    if t == "0" {
        return Some(m);
    }
    for part in t.split(" + ") {
        let (v, c) = part.trim().split_once(' ')?;
        let d: Decimal = v.parse().ok()?;
        if !d.is_zero() {
            m.insert(c.to_string(), d);
        }
    }
    Some(m)
}

fn entry_of_line(r: &Rendered, line: usize) -> Option<usize> {
    r.entry_lines.iter().position(|(a, b)| *a <= line && line <= *b).map(|i| i + 1)
}

pub fn classes(rec: &Value) -> Vec<String> {
    let mut c = std::collections::BTreeSet::new();
    for e in rec["input"].as_array().unwrap() {
        match e["k"].as_str().unwrap() {
            "txn" => {
                for p in e["posts"].as_array().unwrap() {
                    match p["kind"].as_str().unwrap() {
                        "omit" => { c.insert("omitted".to_string()); }
                        "assign" => { c.insert("assigned".to_string()); }
                        _ => {
                            if p["cost"]["k"] != "none" { c.insert("cost".to_string()); }
                            if p["lot"]["k"] != "none" { c.insert("lot".to_string()); }
                            if !is_noq(&p["asrt"]) { c.insert("assertion".to_string()); }
                        }
                    }
                }
            }
            "acct" | "cmdt" => {
                if !e["aliases"].as_array().unwrap().is_empty() { c.insert("alias".to_string()); }
                if e["k"] == "cmdt" && e["prec"].as_i64().unwrap() >= 0 { c.insert("precision".to_string()); }
            }
            _ => {}
        }
    }
    let ex = &rec["expect"];
    if ex["verdict"] == "rej" {
        for k in ex["kinds"].as_array().unwrap() {
            c.insert(format!("rej_{}", k.as_str().unwrap()));
        }
    }
    if !ex["lenient"].as_array().map(|a| a.is_empty()).unwrap_or(true) {
        c.insert("implied_exchange".to_string());
    }
    c.into_iter().collect()
}

/// Compares the code's outcome on `rec.input` with `rec.expect`.
pub fn replay(idx: usize, rec: &Value) -> Value {
    let mut res = replay_with(idx, rec, false);
    // the same behaviour with every amount multiplied by 10^15 (still far inside the decimal range, sums included)
    if rec["scenario"] == "Plain" && res["ok"] == true {
        MAGNITUDE.with(|m| m.set(15));
        let big = replay_with(idx, rec, false);
        MAGNITUDE.with(|m| m.set(0));
        if big["ok"] != true {
            res["ok"] = json!(false);
            let vs: Vec<Value> = big["viol"].as_array().cloned().unwrap_or_default().into_iter().map(|mut v| {
                v["msg"] = json!(format!("with every amount multiplied by 10^15: {}", v["msg"].as_str().unwrap_or("")));
                v
            }).collect();
            res["viol"] = json!(vs);
            res["observed_scaled"] = big["observed"].clone();
        }
    }
    res
}

pub fn replay_with(_idx: usize, rec: &Value, format_first: bool) -> Value {
    let r = render_with(&rec["input"], format_first);
    let ex = &rec["expect"];
    let names = |t: &Value| -> Vec<String> { t.as_object().map(|o| o.keys().cloned().collect()).unwrap_or_default() };
    QUERY_NAMES.with(|q| {
        // (only names the ledger mentions: what a lookup of a never-mentioned name answers is not part of any property)
        *q.borrow_mut() = (names(&ex["lookup_acct"]), names(&ex["lookup_cmdt"]));
    });
    let out = run_process(&r.text);
    QUERY_NAMES.with(|q| *q.borrow_mut() = (Vec::new(), Vec::new()));
    let mut viols = Vec::new();
    let lenient: Vec<usize> = ex["lenient"].as_array().map(|a| a.iter().map(|x| x.as_u64().unwrap() as usize).collect()).unwrap_or_default();
    let observed;
    match &out {
        Outcome::Panic(m) => {
            observed = json!({"verdict": "panic", "msg": m});
            viols.push(viol("panic", format!("okane panicked: {}", m)));
        }
        Outcome::Rej(rej) => {
            let entry = rej.origin_line.and_then(|l| entry_of_line(&r, l));
            observed = json!({"verdict": "rej", "class": rej.class, "kind": rej.kind, "origin_line": rej.origin_line,
                              "entry": entry, "lines": rej.lines, "computed": rej.computed});
            if rej.class != "bookkeep" {
                viols.push(viol("unexpected_error_class", format!("generated text was not processed: {}", rej.text)));
            } else if entry.is_some() && lenient.contains(&entry.unwrap()) && (rej.kind == "UnbalancedPostings" || (rej.computed.is_none() && !rej.kind.contains("Assert"))) {
                // the property permits rejecting an implied exchange
            } else if ex["verdict"] == "ok" {
                viols.push(viol("rejected_valid", format!("specification accepts this ledger, okane rejected it: {} at line {:?}", rej.kind, rej.origin_line)));
            } else {
                let want_entry = ex["entry"].as_u64().unwrap() as usize;
                if entry != Some(want_entry) {
                    viols.push(viol("wrong_entry", format!("error names entry {:?} (line {:?}), the offending entry is {}", entry, rej.origin_line, want_entry)));
                }
                let kinds: Vec<&str> = ex["kinds"].as_array().unwrap().iter().map(|k| k.as_str().unwrap()).collect();
                if kinds == ["assertion"] {
                    // (the name of the error variant is not part of the property: an error that points at the posting and
                    //  reports the computed balance is an assertion failure whatever it is called)
                    if rej.kind != "BalanceAssertionFailure" && rej.computed.is_none() {
                        viols.push(viol("wrong_error_kind", format!("false assertion reported as {} without the computed balance", rej.kind)));
                    } else {
                        let post = ex["post"].as_u64().unwrap() as usize;
                        let pl = &r.post_lines[want_entry - 1];
                        if post >= 1 && post <= pl.len() && viols.is_empty() {
                            if rej.origin_line != Some(pl[post - 1]) {
                                viols.push(viol("assertion_wrong_posting", format!("diagnostic points at line {:?}, the false assertion is on line {}", rej.origin_line, pl[post - 1])));
                            }
                        }
                        let want = amt(&ex["info"]);
                        match rej.computed.as_deref().and_then(parse_inline_amount) {
                            Some(got) => {
                                if got != want {
                                    viols.push(viol("assertion_wrong_computed", format!("diagnostic reports computed balance {:?}, the balance at that point is {:?}", got, want)));
                                }
                            }
                            None => viols.push(viol("assertion_no_computed", "diagnostic does not report the computed balance")),
                        }
                    }
                }
            }
        }
        Outcome::Ok(acc) => {
            observed = json!({"verdict": "ok",
                "reg": acc.reg.iter().map(|(d, ps)| json!({"date": d, "posts": ps.iter().map(|(a, m)| json!({"acct": a, "amt": amt_json(m)})).collect::<Vec<_>>()})).collect::<Vec<_>>(),
                "bal": acc.bal.iter().map(|(a, m)| (a.clone(), amt_json(m))).collect::<Map<String, Value>>()});
            if ex["verdict"] != "ok" {
                viols.push(viol("accepted_invalid", format!("specification rejects entry {} ({}), okane accepted the ledger", ex["entry"], ex["kinds"])));
            } else {
                // register
                let want_reg = ex["reg"].as_array().unwrap();
                if want_reg.len() != acc.reg.len() {
                    viols.push(viol("reg_len", format!("{} transactions, specification has {}", acc.reg.len(), want_reg.len())));
                } else {
                    'outer: for (ti, (wt, (gd, gps))) in want_reg.iter().zip(acc.reg.iter()).enumerate() {
                        if &date_str(wt["date"].as_i64().unwrap()) != gd {
                            viols.push(viol("reg_date", format!("txn {} dated {}, expected {}", ti + 1, gd, date_str(wt["date"].as_i64().unwrap()))));
                            break;
                        }
                        let wps = wt["posts"].as_array().unwrap();
                        if wps.len() != gps.len() {
                            viols.push(viol("reg_posts", format!("txn {} has {} postings, expected {}", ti + 1, gps.len(), wps.len())));
                            break;
                        }
                        for (pi, (wp, (ga, gm))) in wps.iter().zip(gps.iter()).enumerate() {
                            let wa = wp["acct"].as_str().unwrap();
                            let wm = amt(&wp["amt"]);
                            if wa != ga {
                                viols.push(viol("reg_account", format!("txn {} posting {}: account {:?}, specification says {:?}", ti + 1, pi + 1, ga, wa)));
                                break 'outer;
                            }
                            if &wm != gm {
                                let kind = wp["kind"].as_str().unwrap_or("reg");
                                viols.push(viol(&format!("reg_amount_{}", kind), format!("txn {} posting {} ({}): amount {:?}, specification says {:?}", ti + 1, pi + 1, kind, gm, wm)));
                                break 'outer;
                            }
                        }
                    }
                }
                // balances
                let mut want_bal = BTreeMap::new();
                if let Some(o) = ex["bal"].as_object() {
                    for (a, v) in o {
                        let m = amt(v);
                        if !m.is_empty() {
                            want_bal.insert(a.clone(), m);
                        }
                    }
                }
                if want_bal != acc.bal && viols.is_empty() {
                    viols.push(viol("balance", format!("balances {:?}, specification says {:?}", acc.bal, want_bal)));
                }
                // query-side lookups: Ledger.tla Lookup over the final intern tables
                for l in &acc.lookups {
                    if !viols.is_empty() { break; }
                    let want = ex[if l.table == "acct" { "lookup_acct" } else { "lookup_cmdt" }].get(&l.name).and_then(|v| v.as_str()).map(|s| s.to_string());
                    if l.resolved != want {
                        viols.push(viol("lookup", format!("asking for {} `{}` answers {:?}, the specification's intern table says {:?}", if l.table == "acct" { "account" } else { "commodity" }, l.name, l.resolved, want)));
                        continue;
                    }
                    if l.table == "acct" {
                        // the register's account filter compares the written name (it is to become a pattern); not part of the claim
                    } else if let Some(w) = &want {
                        if l.answer != format!("1 {}", w) {
                            viols.push(viol("lookup_eval", format!("evaluating `1 {}` gives `{}`, expected `1 {}`", l.name, l.answer, w)));
                        }
                    }
                }
                if !acc.zero_entries.is_empty() && viols.is_empty() {
                    viols.push(viol("zero_commodity_in_balance", format!("the balance keeps commodities with an exactly zero value: {:?} (a commodity that cancels out is no longer held)", acc.zero_entries)));
                }
            }
        }
    }
    json!({"ok": viols.is_empty(), "viol": viols, "observed": observed, "classes": classes(rec), "text": if viols.is_empty() { Value::Null } else { json!(r.text) }})
}


// ---------------------------------------------------------------------------
// C12: alias transparency as a two-run (product) check on the real code.
// The left run is the behaviour's input as written (aliases used at some
// occurrences), the right run the same input with every declared alias
// replaced by its canonical name according to the specification's final
// intern tables.  Balance and register must be identical and canonical-only.
// ---------------------------------------------------------------------------
fn canon_of(tbl: &Value, name: &str) -> String {
    match tbl.get(name) {
        Some(e) if e["canon"] == false => e["to"].as_str().unwrap().to_string(),
        _ => name.to_string(),
    }
}

fn subst_q(q: &Value, cm: &Value) -> Value {
    let mut q = q.clone();
    let c = q["c"].as_str().unwrap().to_string();
    if !c.is_empty() && c != "~" {
        q["c"] = json!(canon_of(cm, &c));
    }
    q
}

pub fn substitute(input: &Value, at: &Value, cm: &Value) -> Value {
    let mut out = Vec::new();
    for e in input.as_array().unwrap() {
        let mut e = e.clone();
        if e["k"] == "txn" {
            let posts: Vec<Value> = e["posts"].as_array().unwrap().iter().map(|p| {
                let mut p = p.clone();
                p["acct"] = json!(canon_of(at, p["acct"].as_str().unwrap()));
                for f in ["q", "cost", "lot", "asrt"] {
                    p[f] = subst_q(&p[f], cm);
                }
                p
            }).collect();
            e["posts"] = json!(posts);
        }
        out.push(e);
    }
    Value::Array(out)
}

pub fn replay_alias(idx: usize, rec: &Value, workdir: &str) -> Value {
    let base = replay(idx, rec);
    // the same behaviour with `format` written before the aliases of a commodity declaration
    let has_both = rec["input"].as_array().unwrap().iter().any(|e| e["k"] == "cmdt" && e["prec"].as_i64().unwrap_or(-1) >= 0 && !e["aliases"].as_array().unwrap().is_empty());
    if base["ok"] == true && has_both {
        let second = replay_with(idx, rec, true);
        if second["ok"] != true {
            let mut v = second;
            if let Some(arr) = v["viol"].as_array_mut() {
                for x in arr.iter_mut() {
                    let m = x["msg"].as_str().unwrap_or("").to_string();
                    x["msg"] = json!(format!("(with `format` before `alias` in the commodity declaration) {}", m));
                }
            }
            return v;
        }
    }
    let ex = &rec["expect"];
    if base["ok"] != true || ex["verdict"] != "ok" {
        return base;
    }
    let mut viols = Vec::new();
    let right = substitute(&rec["input"], &ex["acct"], &ex["cmdt"]);
    let (rl, rr) = (render(&rec["input"]), render(&right));
    let aliases_a: Vec<String> = ex["acct"].as_object().map(|o| o.iter().filter(|(_, v)| v["canon"] == false).map(|(k, _)| k.clone()).collect()).unwrap_or_default();
    let aliases_c: Vec<String> = ex["cmdt"].as_object().map(|o| o.iter().filter(|(_, v)| v["canon"] == false).map(|(k, _)| k.clone()).collect()).unwrap_or_default();
    match (run_process(&rl.text), run_process(&rr.text)) {
        (Outcome::Ok(l), Outcome::Ok(r)) => {
            if l.bal != r.bal || l.reg != r.reg {
                viols.push(viol("alias_not_transparent", format!("with aliases: {:?} / {:?}; with canonical names: {:?} / {:?}", l.bal, l.reg, r.bal, r.reg)));
            }
            for (a, m) in &l.bal {
                if aliases_a.contains(a) { viols.push(viol("alias_shown", format!("balance report lists alias account {}", a))); }
                for c in m.keys() { if aliases_c.contains(c) { viols.push(viol("alias_shown", format!("balance report lists alias commodity {}", c))); } }
            }
            for (_, ps) in &l.reg {
                for (a, m) in ps {
                    if aliases_a.contains(a) { viols.push(viol("alias_shown", format!("register lists alias account {}", a))); }
                    for c in m.keys() { if aliases_c.contains(c) { viols.push(viol("alias_shown", format!("register lists alias commodity {}", c))); } }
                }
            }
        }
        (Outcome::Ok(_), _) => viols.push(viol("alias_not_transparent", "the ledger written with canonical names only is rejected, the one using aliases is accepted")),
        _ => {}
    }
    // the CLI reports on a sample
    if viols.is_empty() && idx % 8 == 0 {
        let dir = std::path::PathBuf::from(workdir).join(format!("al{}", std::process::id()));
        std::fs::create_dir_all(&dir).unwrap();
        let (pl, pr) = (dir.join("l.ledger"), dir.join("r.ledger"));
        std::fs::write(&pl, &rl.text).unwrap();
        std::fs::write(&pr, &rr.text).unwrap();
        for cmd in ["balance", "register"] {
            let ol = guarded(|| crate::report::cli(&[cmd.to_string(), pl.to_string_lossy().to_string()]));
            let or = guarded(|| crate::report::cli(&[cmd.to_string(), pr.to_string_lossy().to_string()]));
            if ol != or {
                viols.push(viol("cli_alias_not_transparent", format!("`okane {}` differs: {:?} vs {:?}", cmd, ol, or)));
            }
        }
        let _ = std::fs::remove_dir_all(&dir);
    }
    let mut v = base;
    if !viols.is_empty() {
        v["ok"] = json!(false);
        v["viol"] = json!(viols);
        v["text"] = json!(format!("{}\n--- canonical ---\n{}", rl.text, rr.text));
    }
    v
}
