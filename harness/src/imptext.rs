//! C15: what `okane import` prints must read back as what the importer built.
//! Records (benign and hostile payee / code / note texts, bank-style amounts, configured
//! precisions) come from spec/ImportText.tla, which also says which of them are
//! representable in the ledger grammar.  For each record and importer (CSV, Camt053):
//! B = projection of import + to_double_entry, P = parse of the text printed by ImportCmd;
//! exactly one transaction must come back and P must equal B (numbers: same value, scale =
//! max(written scale, configured precision)).
use crate::runner::{guarded, viol};
use crate::synproj;
use okane::import::{self, config, Format};
use rust_decimal::Decimal;
use serde_json::{json, Value};
use std::path::PathBuf;

fn q(s: &str) -> String { serde_json::to_string(s).unwrap() }
fn csv_cell(s: &str) -> String {
    if s.contains(',') || s.contains('"') || s.contains('\n') || s.contains('\r') { format!("\"{}\"", s.replace('"', "\"\"")) } else { s.to_string() }
}
fn xml_text(s: &str) -> String { s.replace('&', "&amp;").replace('<', "&lt;").replace('>', "&gt;") }

struct Case { name: &'static str, yaml: String, source: String, ext: &'static str, format: Format }

fn cases(rec: &Value) -> Vec<Case> {
    let r = &rec["rec"];
    let payee = r["payee"].as_str().unwrap();
    let code = r["code"].as_str().unwrap();
    let note = r["note"].as_str().unwrap();
    let amt = &r["amount"];
    let prec = r["precision"].as_i64().unwrap();
    let account = r["account"].as_str().unwrap_or("Assets:Src");
    let prec_yaml = |c: &str| if prec >= 0 { format!("  commodity:\n    {}:\n      precision: {}\n", c, prec) } else { String::new() };
    let mut v = Vec::new();
    // ---- CSV
    let (cell, rule) = if code == "~" { (payee.to_string(), String::new()) } else {
        (format!("K{}|{}", code, payee), "rewrite:\n  - matcher:\n      payee: \"(?s)^K(?P<code>.*?)\\\\|(?P<payee>.*)$\"\n".to_string())
    };
    let yaml = format!("path: stmt.csv\nencoding: UTF-8\naccount: {}\naccount_type: asset\ncommodity: USD\nformat:\n  date: \"%Y-%m-%d\"\n  fields:\n    date: 1\n    amount: 2\n    payee: 3\n    note: 4\n{}{}",
                       q(account), prec_yaml("USD"), rule);
    let csv = format!("date,amount,payee,note\n2024-01-05,{},{},{}\n", csv_cell(amt["txt"].as_str().unwrap()), csv_cell(&cell), csv_cell(note));
    v.push(Case { name: "csv", yaml, source: csv, ext: "csv", format: Format::Csv });
    // ---- Camt053 (payee from the entry text, code from the servicer reference; the amount's own spelling is XML decimal)
    if note.is_empty() {
        let mut d = Decimal::from_i128_with_scale(amt["m"].as_str().unwrap().parse::<i128>().unwrap(), amt["s"].as_u64().unwrap() as u32);
        let cd = if amt["neg"] == true { "DBIT" } else { "CRDT" };
        if d.is_zero() { d = Decimal::ONE; }
        let refs = if code == "~" { "<Refs><EndToEndId>NOTPROVIDED</EndToEndId></Refs>".to_string() } else { format!("<Refs><AcctSvcrRef>{}</AcctSvcrRef></Refs>", xml_text(code)) };
        let xml = format!("<?xml version=\"1.0\" encoding=\"UTF-8\"?>\n<Document><BkToCstmrStmt><Stmt>\n<Bal><Tp><CdOrPrtry><Cd>CLBD</Cd></CdOrPrtry></Tp><Amt Ccy=\"CHF\">{a}</Amt><CdtDbtInd>{cd}</CdtDbtInd></Bal>\n<Ntry><Amt Ccy=\"CHF\">{a}</Amt><CdtDbtInd>{cd}</CdtDbtInd><BookgDt><Dt>2024-01-05</Dt></BookgDt><ValDt><Dt>2024-01-05</Dt></ValDt><BkTxCd><Domn><Cd>PMNT</Cd><Fmly><Cd>RCDT</Cd><SubFmlyCd>OTHR</SubFmlyCd></Fmly></Domn></BkTxCd><NtryDtls><Btch><NbOfTxs>1</NbOfTxs></Btch><TxDtls>{refs}<Amt Ccy=\"CHF\">{a}</Amt><CdtDbtInd>{cd}</CdtDbtInd><AddtlTxInf>{p}</AddtlTxInf></TxDtls></NtryDtls><AddtlNtryInf>x</AddtlNtryInf></Ntry>\n</Stmt></BkToCstmrStmt></Document>\n",
                          a = d, cd = cd, refs = refs, p = xml_text(payee));
        let yaml = format!("path: stmt.xml\nencoding: UTF-8\naccount: {}\naccount_type: asset\ncommodity: CHF\nformat:\n{}rewrite:\n  - matcher:\n      additional_transaction_info: \"(?s)^(?P<payee>.*)$\"\n",
                           q(account), if prec >= 0 { prec_yaml("CHF") } else { "  row_order: old_to_new\n".to_string() });
        v.push(Case { name: "camt", yaml, source: xml, ext: "xml", format: Format::IsoCamt053 });
    }
    // ---- Viseca (line based: payee on the entry line, category below; a second entry in a foreign currency with
    //      exchange rate and processing fee exercises rates and charges)
    if note.is_empty() && code == "~" && !payee.contains('\n') && !payee.contains('\r') {
        let d = Decimal::from_i128_with_scale(amt["m"].as_str().unwrap().parse::<i128>().unwrap(), amt["s"].as_u64().unwrap() as u32);
        let mut shown = d.abs();
        shown.rescale(2);
        let txt = shown.to_string();
        let (ip, fp) = txt.split_once('.').unwrap();
        let mut grouped = String::new();
        for (i, ch) in ip.chars().enumerate() {
            if i > 0 && (ip.len() - i) % 3 == 0 { grouped.push('\''); }
            grouped.push(ch);
        }
        let neg = if amt["neg"] == true { " -" } else { "" };
        let src = format!("05.01.24 06.01.24 {} CH {}.{}{}\nGrocery stores\n10.01.24 11.01.24 Europe Gas AT EUR 46.88 52.10\nService stations\nExchange rate 1.092432 of 11.01.24 CHF 51.20\nProcessing fee 1.75% CHF 0.90\n",
                          payee, grouped, fp, neg);
        let yaml = format!("path: stmt.txt\nencoding: UTF-8\naccount: {}\naccount_type: liability\noperator: \"Card (fee)\"\ncommodity: CHF\nformat:\n{}rewrite:\n  - matcher:\n      category: \"Service stations\"\n    account: \"Expenses:Car\"\n",
                           q(account), if prec >= 0 { format!("  commodity:\n    CHF:\n      precision: {}\n    EUR:\n      precision: {}\n", prec, prec) } else { "  row_order: old_to_new\n".to_string() });
        v.push(Case { name: "viseca", yaml, source: src, ext: "txt", format: Format::Viseca });
    }
    v
}

/// numbers of a projected tree in traversal order: (mantissa string, neg, scale)
pub fn numbers(v: &Value, out: &mut Vec<(String, bool, u64)>) {
    match v {
        Value::Object(o) => {
            if o.contains_key("m") && o.contains_key("neg") && o.contains_key("s") && o.contains_key("f") {
                out.push((o["m"].as_str().unwrap().to_string(), o["neg"].as_bool().unwrap(), o["s"].as_u64().unwrap()));
                return;
            }
            for (_, x) in o { numbers(x, out); }
        }
        Value::Array(a) => for x in a { numbers(x, out); },
        _ => {}
    }
}

pub fn strip_numbers(v: &Value) -> Value {
    match v {
        Value::Object(o) => {
            if o.contains_key("m") && o.contains_key("neg") && o.contains_key("s") && o.contains_key("f") { return json!("#"); }
            Value::Object(o.iter().map(|(k, x)| (k.clone(), strip_numbers(x))).collect())
        }
        Value::Array(a) => Value::Array(a.iter().map(strip_numbers).collect()),
        Value::String(s) => json!(s.trim()),
        other => other.clone(),
    }
}

pub fn dec_of(n: &(String, bool, u64)) -> Decimal {
    let mut d = Decimal::from_i128_with_scale(n.0.parse::<i128>().unwrap_or(0), n.2 as u32);
    if n.1 { d = -d; }
    d
}

pub fn replay(idx: usize, rec: &Value, workdir: &str) -> Value {
    let mut viols = Vec::new();
    let faults: Vec<String> = rec["faults"].as_array().unwrap().iter().map(|f| f.as_str().unwrap().to_string()).collect();
    let prec = rec["rec"]["precision"].as_i64().unwrap();
    let mut observed = Vec::new();
    for c in cases(rec) {
        let tag = |k: &str| -> String {
            // violations on texts the grammar cannot carry are grouped by the unrepresentable feature
            if faults.is_empty() { format!("{}:{}", k, c.name) } else { format!("{}:{}:{}", k, c.name, faults.join("+")) }
        };
        let (y, s, fmt) = (c.yaml.clone(), c.source.clone(), c.format);
        let ext = c.ext;
        let acct = rec["rec"]["account"].as_str().unwrap_or("Assets:Src").to_string();
        let built = guarded(move || -> Result<Vec<Value>, String> {
            let set = config::load_from_yaml(y.as_bytes()).map_err(|e| format!("config: {}", e))?;
            let entry = set.select(std::path::Path::new(&format!("/data/stmt.{}", ext))).map_err(|e| format!("select: {}", e))?.ok_or("no config selected")?;
            let txns = import::import(s.as_bytes(), fmt, &entry).map_err(|e| format!("import: {}", e))?;
            let mut out = Vec::new();
            for t in &txns {
                let d = t.to_double_entry(&acct).map_err(|e| format!("to_double_entry: {}", e))?;
                out.push(synproj::entry(&okane_core::syntax::LedgerEntry::Txn(d)));
            }
            Ok(out)
        });
        let b = match built {
            Err(p) => { viols.push(viol(&tag("panic"), format!("{} import panicked: {}", c.name, p))); continue; }
            // an importer may refuse a record it cannot represent; refusing a representable one is reported
            Ok(Err(e)) => { if faults.is_empty() { viols.push(viol(&tag("import_failed"), format!("{}: {}", c.name, e))); } observed.push(json!({"case": c.name, "refused": e})); continue; }
            Ok(Ok(b)) => b,
        };
        let dir = PathBuf::from(workdir).join(format!("it{}_{}", std::process::id(), idx));
        let _ = std::fs::remove_dir_all(&dir);
        std::fs::create_dir_all(&dir).unwrap();
        let (cp, sp) = (dir.join("config.yml"), dir.join(format!("stmt.{}", c.ext)));
        std::fs::write(&cp, &c.yaml).unwrap();
        std::fs::write(&sp, &c.source).unwrap();
        let args = vec!["import".to_string(), "-c".to_string(), cp.to_string_lossy().to_string(), sp.to_string_lossy().to_string()];
        let printed = guarded(|| crate::report::cli(&args));
        let _ = std::fs::remove_dir_all(&dir);
        let text = match printed {
            Err(p) => { viols.push(viol(&tag("panic"), format!("`okane import` ({}) panicked: {}", c.name, p))); continue; }
            Ok(Err(e)) => { viols.push(viol(&tag("print_failed"), format!("`okane import` ({}) failed although the library import succeeded: {}", c.name, e))); continue; }
            Ok(Ok(t)) => t,
        };
        let t2 = text.clone();
        let parsed = match guarded(move || synproj::parse_all(&t2)) {
            Err(p) => { viols.push(viol(&tag("panic"), format!("parser panicked on import output: {}", p))); continue; }
            Ok(Err(e)) => { viols.push(viol(&tag("output_does_not_parse"), format!("{}: the printed transaction does not parse: {}\n{}", c.name, e.lines().next().unwrap_or(""), text))); continue; }
            Ok(Ok(p)) => p,
        };
        observed.push(json!({"case": c.name, "printed": text}));
        if parsed.len() != b.len() {
            viols.push(viol(&tag("transaction_count"), format!("{}: {} statement record(s) were built, {} transaction(s) read back\n{}", c.name, b.len(), parsed.len(), text)));
            continue;
        }
        for (bt, pt) in b.iter().zip(parsed.iter()) {
            let (sb, sp2) = (strip_numbers(bt), strip_numbers(pt));
            if sb != sp2 {
                let d = crate::syntax::normal(&sb) != crate::syntax::normal(&sp2);
                if d {
                    viols.push(viol(&tag("reads_back_differently"), format!("{}: built {} -- read back {}\n{}", c.name, sb, sp2, text)));
                    continue;
                }
            }
            let (mut nb, mut np) = (Vec::new(), Vec::new());
            numbers(bt, &mut nb);
            numbers(pt, &mut np);
            if nb.len() != np.len() {
                viols.push(viol(&tag("reads_back_differently"), format!("{}: {} numbers built, {} read back", c.name, nb.len(), np.len())));
                continue;
            }
            for (x, y) in nb.iter().zip(np.iter()) {
                if dec_of(x) != dec_of(y) {
                    viols.push(viol(&tag("value_changed"), format!("{}: number {} printed and read back as {}\n{}", c.name, dec_of(x), dec_of(y), text)));
                } else if y.2 != std::cmp::max(x.2, if prec >= 0 { prec as u64 } else { 0 }) {
                    viols.push(viol(&tag("scale_changed"), format!("{}: number with {} decimals printed with {} (configured precision {})\n{}", c.name, x.2, y.2, prec, text)));
                }
            }
        }
        // the built account posting carries the value written in the statement, with its decimals
        if c.name == "csv" {
            let a = &rec["rec"]["amount"];
            let want = dec_of(&(a["m"].as_str().unwrap().to_string(), a["neg"].as_bool().unwrap(), a["s"].as_u64().unwrap()));
            let mut nb = Vec::new();
            if let Some(p) = b[0]["posts"].as_array().unwrap().iter().find(|p| p["account"] == rec["rec"]["account"].as_str().unwrap_or("Assets:Src")) {
                numbers(&p["amount"], &mut nb);
            }
            if !(nb.len() >= 1 && dec_of(&nb[0]) == want && nb[0].2 == a["s"].as_u64().unwrap()) {
                viols.push(viol(&tag("amount_misread"), format!("csv: statement amount {} (= {} with {} decimals) is booked on the account as {:?}", a["txt"], want, a["s"], nb.first().map(|n| (dec_of(n), n.2)))));
            }
        }
    }
    let classes = if faults.is_empty() { vec!["representable".to_string()] } else { faults.iter().map(|f| format!("hostile_{}", f)).collect() };
    json!({"ok": viols.is_empty(), "viol": viols, "classes": classes, "observed": observed})
}
