mod camt;
mod conv;
mod csvimp;
mod diag;
mod expr;
mod golden;
mod imptext;
mod ledger;
mod literal;
mod synproj;
mod syntax;
mod loader;
mod price;
mod report;
mod rules;
mod runner;
mod total;
mod trace;
mod viseca;

fn main() {
    let args: Vec<String> = std::env::args().collect();
    if args.len() < 2 {
        eprintln!("usage: vh <mode> --in FILE [--start N] [--limit N] [--budget-ms N]");
        std::process::exit(2);
    }
    let mode = args[1].clone();
    if mode == "ledger-trace" {
        trace::main(&args[2..]);
        return;
    }
    if mode == "viseca-trace" {
        viseca::trace_main(&args[2..]);
        return;
    }
    if mode == "loader-trace" {
        loader::trace_main(&args[2..]);
        return;
    }
    let opts = runner::parse_opts(&args[2..]);
    let workdir = std::env::var("VH_WORK").unwrap_or_else(|_| "/verif/.work".to_string());
    match mode.as_str() {
        "golden" => runner::run_records(&opts, move |i, r| golden::replay(i, r, &workdir)),
        "imptext" => { let w = workdir.clone(); runner::run_records(&opts, move |i, r| imptext::replay(i, r, &w)) }
        "ledger" => runner::run_records(&opts, ledger::replay),
        "ledger-alias" => { let w = workdir.clone(); runner::run_records(&opts, move |i, r| ledger::replay_alias(i, r, &w)) }
        "conv" => { let w = workdir.clone(); runner::run_records(&opts, move |i, r| conv::replay(i, r, &w)) }
        "viseca" => { let w = workdir.clone(); runner::run_records(&opts, move |i, r| viseca::replay(i, r, &w)) }
        "camt" => { let w = workdir.clone(); runner::run_records(&opts, move |i, r| camt::replay(i, r, &w)) }
        "csv" => { let w = workdir.clone(); runner::run_records(&opts, move |i, r| csvimp::replay(i, r, &w)) }
        "diag" => { let w = workdir.clone(); runner::run_records(&opts, move |i, r| diag::replay(i, r, &w)) }
        "expr" => runner::run_records(&opts, expr::replay),
        "literal" => runner::run_records(&opts, literal::replay),
        "literal-space" => runner::run_records(&opts, literal::replay_space),
        "loader" => { let w = workdir.clone(); runner::run_records(&opts, move |i, r| loader::replay(i, r, &w)) }
        "total" => { let w = workdir.clone(); runner::run_records(&opts, move |i, r| total::replay(i, r, &w)) }
        "rules" => runner::run_records(&opts, rules::replay),
        "syntax" => runner::run_records(&opts, syntax::replay),
        "price" => { let w = workdir.clone(); runner::run_records(&opts, move |i, r| price::replay(i, r, &w)) }
        "report" => { let w = workdir.clone(); runner::run_records(&opts, move |i, r| report::replay(i, r, &w)) }
        _ => {
            eprintln!("unknown mode {}", mode);
            std::process::exit(2);
        }
    }
}
