//! C15 (Viseca part): statements come from spec/ImportViseca.tla as sequences of abstract lines;
//! rendered as text, imported through okane::import::import(Viseca) + to_double_entry and compared
//! with the specification's records (one transaction per entry line, fields of every posting);
//! then `okane import`'s output is parsed back and compared with what was built.
use crate::csvimp::dec_opt;
use crate::imptext::{dec_of, numbers, strip_numbers};
use crate::runner::{guarded, viol};
use crate::synproj;
use okane::import::{self, config, Format};
use rust_decimal::Decimal;
use serde_json::{json, Value};
use std::path::PathBuf;

/// as the card statement prints amounts: two decimals, thousands separated by an apostrophe
fn swiss(d: Decimal) -> String {
    let mut d = d.abs();
    if d.scale() < 2 { d.rescale(2); }
    let s = d.to_string();
    let (ip, fp) = s.split_once('.').unwrap_or((&s, ""));
    let mut g = String::new();
    for (i, ch) in ip.chars().enumerate() {
        if i > 0 && (ip.len() - i) % 3 == 0 { g.push('\''); }
        g.push(ch);
    }
    if fp.is_empty() { g } else { format!("{}.{}", g, fp) }
}

fn day(d: i64) -> String { format!("{:02}.01.24", d) }
fn iso(d: i64) -> String { format!("2024-01-{:02}", d) }

fn line_text(l: &Value) -> String {
    match l["k"].as_str().unwrap() {
        "E" => {
            let spent = if l["cur"] == "~" { String::new() } else { format!(" {} {}", l["cur"].as_str().unwrap(), swiss(dec_opt(&l["ex"]).unwrap())) };
            format!("{} {} {}{} {}{}", day(l["day"].as_i64().unwrap()), day(l["eday"].as_i64().unwrap()), l["payee"].as_str().unwrap(), spent,
                    swiss(dec_opt(&l["amt"]).unwrap()), if l["neg"] == true { " -" } else { "" })
        }
        "C" => l["t"].as_str().unwrap().to_string(),
        "X" => format!("Exchange rate {} of 11.01.24 CHF {}", dec_opt(&l["rate"]).unwrap(), swiss(dec_opt(&l["samt"]).unwrap())),
        "F" => format!("{} 1.75% CHF {}", if l["credit"] == true { "Credit of processing fee" } else { "Processing fee" }, swiss(dec_opt(&l["famt"]).unwrap())),
        "G" => "Processing fee waived".to_string(),
        "A" => "Air-Ticket-No: 724-1234567890".to_string(),
        "J" => "Total carried forward".to_string(),
        "D" => "24h services".to_string(),
        _ => String::new(),
    }
}

/// three line-end styles, chosen by the record's index: LF, CRLF, LF with the last line ending at end of file
pub fn render(rec: &Value, idx: usize) -> String {
    let lines: Vec<String> = rec["lines"].as_array().unwrap().iter().map(line_text).collect();
    let eol = if idx % 3 == 1 { "\r\n" } else { "\n" };
    let mut s = lines.join(eol);
    // (a blank last line cannot be written without a final newline: it would not be a line at all)
    if !lines.is_empty() && (idx % 3 != 2 || lines.last().map(|l| l.is_empty()).unwrap_or(false)) { s.push_str(eol); }
    s
}

const YAML: &str = "path: stmt.txt\nencoding: UTF-8\naccount: \"Liabilities:Card\"\naccount_type: liability\noperator: \"Card (fee)\"\ncommodity: CHF\nrewrite:\n  - account: \"Assets:Wire\"\n    matcher:\n      - payee: \"Your payment - Thank you\"\n  - account: \"Expenses:Car\"\n    matcher:\n      - category: \"Service stations\"\n";

fn lit(v: &Value) -> Option<(Decimal, String)> {
    let v = crate::syntax::normal(v);
    if v["t"] != "amt" { return None; }
    let n = &v["a"]["n"];
    let m: i128 = n["m"].as_str().unwrap().parse().unwrap_or(0);
    let mut d = Decimal::from_i128_with_scale(m, n["s"].as_u64().unwrap() as u32);
    if n["neg"] == true { d = -d; }
    Some((d, v["a"]["c"].as_str().unwrap().to_string()))
}

fn compare(got: &[Value], rec: &Value, viols: &mut Vec<Value>) {
    let want = rec["expect"].as_array().unwrap();
    if got.len() != want.len() {
        viols.push(viol("transaction_count", format!("{} transactions built, the statement has {} records (one per entry line)", got.len(), want.len())));
        return;
    }
    for (k, (g, w)) in got.iter().zip(want.iter()).enumerate() {
        let t = k + 1;
        if g["date"] != iso(w["day"].as_i64().unwrap()).as_str() {
            viols.push(viol("date", format!("transaction {}: dated {}, the entry line says {}", t, g["date"], iso(w["day"].as_i64().unwrap()))));
        }
        let ed = w["eday"].as_i64().unwrap();
        let want_ed = if ed == 0 { Value::Null } else { json!(iso(ed)) };
        if g["edate"] != want_ed {
            viols.push(viol("effective_date", format!("transaction {}: effective date {}, expected {}", t, g["edate"], want_ed)));
        }
        if g["payee"].as_str().unwrap_or("").trim() != w["payee"].as_str().unwrap() {
            viols.push(viol("payee", format!("transaction {}: payee {}, the entry line says {}", t, g["payee"], w["payee"])));
        }
        let (gp, wp) = (g["posts"].as_array().unwrap(), w["posts"].as_array().unwrap());
        if gp.len() != wp.len() {
            viols.push(viol("postings", format!("transaction {}: {} postings, the record gives {} (counter, fee if any, account)", t, gp.len(), wp.len())));
            continue;
        }
        for (j, (p, q)) in gp.iter().zip(wp.iter()).enumerate() {
            if p["account"] != q["account"] {
                viols.push(viol("account", format!("transaction {} posting {}: account {}, expected {} (category and payee of this very record decide)", t, j + 1, p["account"], q["account"])));
            }
            let want_amt = (dec_opt(&q["amt"]).unwrap(), q["c"].as_str().unwrap().to_string());
            match lit(&p["amount"]) {
                Some(x) if x == want_amt => {}
                other => viols.push(viol("amount", format!("transaction {} posting {} ({}): {:?}, the record gives {} {}", t, j + 1, q["account"], other, want_amt.0, want_amt.1))),
            }
            let want_cost = if q["cost"]["c"] == "~" { None } else { Some((dec_opt(&q["cost"]["v"]).unwrap(), q["cost"]["c"].as_str().unwrap().to_string())) };
            let got_cost = if p["cost"].is_null() { None } else if p["cost"]["k"] == "rate" { lit(&p["cost"]["v"]) } else { Some((Decimal::ZERO, "total?".to_string())) };
            if want_cost != got_cost {
                viols.push(viol("rate", format!("transaction {} posting {}: rate {:?}, the exchange-rate line of this record gives {:?}", t, j + 1, got_cost, want_cost)));
            }
            let is_dest = q["account"] != "Liabilities:Card" && q["account"] != "Expenses:Commissions";
            let want_clear = if is_dest && w["pending"] == true { "!" } else { "" };
            if p["clear"] != want_clear {
                viols.push(viol("pending_mark", format!("transaction {} posting {}: mark {:?}, expected {:?}", t, j + 1, p["clear"], want_clear)));
            }
            if q["payee"] != "~" {
                let has = p["metadata"].as_array().unwrap().iter().any(|m| m["k"] == "kv" && m["key"] == "Payee" && m["value"]["v"] == q["payee"]);
                if !has { viols.push(viol("fee_payee", format!("transaction {} posting {}: the fee posting does not name the operator: {}", t, j + 1, p["metadata"]))); }
            }
        }
    }
}

pub fn replay(idx: usize, rec: &Value, workdir: &str) -> Value {
    let text = render(rec, idx);
    let elines = rec["lines"].as_array().unwrap().iter().filter(|l| l["k"] == "E").count();
    let spec_ok = rec["ok"] == true;
    let mut viols = Vec::new();
    let t2 = text.clone();
    let r = guarded(move || -> Result<Vec<Value>, String> {
        let set = config::load_from_yaml(YAML.as_bytes()).map_err(|e| format!("config: {}", e))?;
        let entry = set.select(std::path::Path::new("/data/stmt.txt")).map_err(|e| format!("select: {}", e))?.ok_or("no config selected")?;
        let txns = import::import(t2.as_bytes(), Format::Viseca, &entry).map_err(|e| format!("import: {}", e))?;
        let mut out = Vec::new();
        for t in &txns {
            let d = t.to_double_entry("Liabilities:Card").map_err(|e| format!("to_double_entry: {}", e))?;
            out.push(synproj::entry(&okane_core::syntax::LedgerEntry::Txn(d)));
        }
        Ok(out)
    });
    let mut observed = json!(null);
    let mut built: Option<Vec<Value>> = None;
    match r {
        Err(p) => viols.push(viol("panic", format!("viseca import panicked: {}", p))),
        Ok(Err(e)) => {
            observed = json!({"refused": e});
            // a sentence of the statement grammar must import
            if spec_ok { viols.push(viol("import_failed", format!("a well-formed statement is refused: {}", e))); }
        }
        Ok(Ok(tree)) => {
            observed = json!({"transactions": tree.len()});
            if spec_ok { compare(&tree, rec, &mut viols); }
            // whatever the statement contains: one transaction per statement record (entry line)
            else if tree.len() != elines {
                viols.push(viol("transaction_count", format!("{} transactions from a statement with {} entry lines", tree.len(), elines)));
            }
            built = Some(tree);
        }
    }
    // what `okane import` prints reads back as what was built
    if let (true, Some(b)) = (viols.is_empty(), built.as_ref()) {
        let dir = PathBuf::from(workdir).join(format!("vis{}_{}", std::process::id(), idx));
        let _ = std::fs::remove_dir_all(&dir);
        std::fs::create_dir_all(&dir).unwrap();
        let (cp, sp) = (dir.join("config.yml"), dir.join("stmt.txt"));
        std::fs::write(&cp, YAML).unwrap();
        std::fs::write(&sp, &text).unwrap();
        let args = vec!["import".to_string(), "-c".to_string(), cp.to_string_lossy().to_string(), sp.to_string_lossy().to_string()];
        let printed = guarded(|| crate::report::cli(&args));
        let _ = std::fs::remove_dir_all(&dir);
        match printed {
            Err(p) => viols.push(viol("panic", format!("`okane import` panicked: {}", p))),
            Ok(Err(e)) => viols.push(viol("print_failed", format!("`okane import` failed although the library import succeeded: {}", e))),
            Ok(Ok(out)) => {
                let o2 = out.clone();
                match guarded(move || synproj::parse_all(&o2)) {
                    Err(p) => viols.push(viol("panic", format!("parser panicked on import output: {}", p))),
                    Ok(Err(e)) => viols.push(viol("output_does_not_parse", format!("the printed ledger does not parse: {}\n{}", e.lines().next().unwrap_or(""), out))),
                    Ok(Ok(parsed)) => {
                        if parsed.len() != b.len() {
                            viols.push(viol("transaction_count", format!("{} transactions built, {} read back\n{}", b.len(), parsed.len(), out)));
                        } else {
                            for (bt, pt) in b.iter().zip(parsed.iter()) {
                                let (sb, sp2) = (strip_numbers(bt), strip_numbers(pt));
                                if sb != sp2 && crate::syntax::normal(&sb) != crate::syntax::normal(&sp2) {
                                    viols.push(viol("reads_back_differently", format!("built {} -- read back {}\n{}", sb, sp2, out)));
                                    continue;
                                }
                                let (mut nb, mut np) = (Vec::new(), Vec::new());
                                numbers(bt, &mut nb);
                                numbers(pt, &mut np);
                                if nb.len() != np.len() || nb.iter().zip(np.iter()).any(|(x, y)| dec_of(x) != dec_of(y) || y.2 != x.2) {
                                    viols.push(viol("value_changed", format!("numbers built {:?}, read back {:?}\n{}", nb, np, out)));
                                }
                            }
                        }
                    }
                }
            }
        }
    }
    let mut classes = vec![if spec_ok { "well_formed".to_string() } else { "malformed".to_string() }];
    if spec_ok && elines >= 2 { classes.push("several_records".into()); }
    if rec["lines"].as_array().unwrap().iter().any(|l| l["k"] == "X") && spec_ok { classes.push("foreign".into()); }
    json!({"ok": viols.is_empty(), "viol": viols, "classes": classes, "observed": observed,
           "files": if viols.is_empty() { Value::Null } else { json!({"stmt.txt": text}) }})
}

// ---------------------------------------------------------------------------
// Binding B: record the events that the statement reader itself emits (cli/src/import/viseca/parser.rs
// under --cfg okane_verif) while it imports the statements of TLC-generated behaviours, and write them
// as a trace that spec/ImportVisecaTrace.tla validates action by action.  Nothing is derived: the
// "stmt" event carries the abstract lines of the behaviour, the "end" event the result of import().
// ---------------------------------------------------------------------------
pub fn trace_main(args: &[String]) {
    let mut input = None;
    let mut output = None;
    let mut stride = 1usize;
    let mut i = 0;
    while i < args.len() {
        match args[i].as_str() {
            "--in" => { input = Some(args[i + 1].clone()); i += 1; }
            "--out" => { output = Some(args[i + 1].clone()); i += 1; }
            "--stride" => { stride = args[i + 1].parse().unwrap(); i += 1; }
            _ => {}
        }
        i += 1;
    }
    let text = std::fs::read_to_string(input.expect("--in")).unwrap();
    let set = config::load_from_yaml(YAML.as_bytes()).expect("config");
    let entry = set.select(std::path::Path::new("/data/stmt.txt")).expect("select").expect("selected");
    let mut out: Vec<String> = Vec::new();
    let (mut runs, mut hook_events) = (0usize, 0usize);
    for (idx, line) in text.lines().enumerate() {
        if idx % stride != 0 || line.trim().is_empty() { continue; }
        let rec: Value = serde_json::from_str(line).unwrap();
        let stmt = render(&rec, idx);
        out.push(json!({"ev": "stmt", "lines": rec["lines"], "record": idx}).to_string());
        okane_core::verif::start();
        let r = guarded(|| import::import(stmt.as_bytes(), Format::Viseca, &entry).map(|t| t.len()).map_err(|e| e.to_string()));
        let events = okane_core::verif::take();
        hook_events += events.len();
        out.extend(events);
        let result = match &r { Ok(Ok(_)) => "ok", Ok(Err(_)) => "err", Err(_) => "panic" };
        out.push(json!({"ev": "end", "result": result}).to_string());
        runs += 1;
    }
    std::fs::write(output.expect("--out"), out.join("\n") + "\n").unwrap();
    println!("{}", json!({"runs": runs, "events": out.len(), "hook_events": hook_events}));
}
