//! C20: replays behaviours of spec/Golden.tla against the real okane_golden crate.
use crate::runner::{guarded, viol};
use okane_golden::Golden;
use serde_json::{json, Value};
use std::path::PathBuf;

fn content(v: &Value) -> Option<Vec<u8>> {
    let toks: Vec<&str> = v.as_array()?.iter().map(|x| x.as_str().unwrap()).collect();
    if toks == ["ABSENT"] || toks == ["NONE"] {
        return None;
    }
    let mut s = String::new();
    for t in toks {
        match t {
            "CR" => s.push('\r'),
            "LF" => s.push('\n'),
            "E" => s.push('é'),
            "W" => s.push('金'),
            other => s.push_str(other),
        }
    }
    Some(s.into_bytes())
}

fn set_env(v: &str) {
    match v {
        "unset" => std::env::remove_var("UPDATE_GOLDEN"),
        "empty" => std::env::set_var("UPDATE_GOLDEN", ""),
        _ => std::env::set_var("UPDATE_GOLDEN", "1"),
    }
}

fn read_file(p: &PathBuf) -> Option<Vec<u8>> {
    std::fs::read(p).ok()
}

pub fn replay(idx: usize, rec: &Value, workdir: &str) -> Value {
    let dir = PathBuf::from(workdir).join(format!("g{}", std::process::id()));
    let _ = std::fs::remove_dir_all(&dir);
    std::fs::create_dir_all(&dir).unwrap();
    let path = dir.join(format!("golden_{}.txt", idx));
    let mut viols = Vec::new();
    let mut inst: Option<Golden> = None;
    let steps = rec["steps"].as_array().unwrap();
    let mut trace = Vec::new();
    for (k, st) in steps.iter().enumerate() {
        let op = st["op"].as_str().unwrap();
        let before = read_file(&path);
        let mut got_res: Option<String> = None;
        match op {
            "init" => {
                match content(&st["file"]) {
                    Some(c) => std::fs::write(&path, c).unwrap(),
                    None => { let _ = std::fs::remove_file(&path); }
                }
                set_env(st["env"].as_str().unwrap());
            }
            "setenv" => set_env(st["v"].as_str().unwrap()),
            "write" => std::fs::write(&path, content(&st["c"]).unwrap()).unwrap(),
            "delete" => { let _ = std::fs::remove_file(&path); }
            "new" => {
                let p = path.clone();
                match guarded(move || Golden::new(p)) {
                    Ok(Ok(g)) => { inst = Some(g); got_res = Some("ok".into()); }
                    Ok(Err(_)) => { got_res = Some("err".into()); }
                    Err(m) => { got_res = Some(format!("panic:{}", m)); }
                }
                let want = st["res"].as_str().unwrap();
                if got_res.as_deref() != Some(want) {
                    viols.push(viol("new_result", format!("step {}: Golden::new gave {:?}, specification says {}", k, got_res, want)));
                }
            }
            "assert" => {
                let g = inst.as_ref().expect("spec guarantees an instance");
                let got = String::from_utf8(content(&st["got"]).unwrap()).unwrap();
                let r = guarded(|| g.assert(&got));
                let verdict = if r.is_ok() { "pass" } else { "panic" };
                got_res = Some(verdict.into());
                let allowed: Vec<&str> = st["res"].as_array().unwrap().iter().map(|x| x.as_str().unwrap()).collect();
                if !allowed.contains(&verdict) {
                    viols.push(viol("assert_verdict", format!("step {}: assert({:?}) gave {}, specification allows {:?}", k, got, verdict, allowed)));
                }
            }
            _ => panic!("unknown op {}", op),
        }
        // projection: the file's bytes after the step must equal the model's `file`
        let after = read_file(&path);
        if op != "init" {
            let want = content(&st["file"]);
            if after != want {
                viols.push(viol("file_state", format!(
                    "step {} ({}): file on disk is {:?}, specification says {:?} (before the step: {:?})",
                    k, op, after.as_ref().map(|b| String::from_utf8_lossy(b).into_owned()),
                    want.as_ref().map(|b| String::from_utf8_lossy(b).into_owned()),
                    before.as_ref().map(|b| String::from_utf8_lossy(b).into_owned()))));
            }
        }
        trace.push(json!({"op": op, "res": got_res, "file_after": after.map(|b| String::from_utf8_lossy(&b).into_owned())}));
        if !viols.is_empty() { break; }
    }
    let _ = std::fs::remove_dir_all(&dir);
    std::env::remove_var("UPDATE_GOLDEN");
    let nontrivial = steps.iter().any(|s| s["op"] == "assert");
    json!({"ok": viols.is_empty(), "viol": viols, "observed": trace, "classes": if nontrivial { vec!["assert"] } else { vec!["no_assert"] }})
}
