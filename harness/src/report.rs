//! C04: date-range balances, register and whole-history balance of the real code
//! compared with spec/Report.tla's values for every (start, end) pair.
use crate::ledger::{amount_map, amt, amt_json, date_str, fake_loader, parse_inline_amount, render, AmtMap};
use crate::runner::{guarded, viol};
use chrono::NaiveDate;
use clap::Parser as _;
use okane_core::report::{self, query, ReportContext};
use serde_json::{json, Value};
use std::collections::BTreeMap;

pub const NO_BOUND: i64 = -99;

pub fn to_date(d: i64) -> Option<NaiveDate> {
    if d == NO_BOUND {
        None
    } else if d == 0 {
        Some(NaiveDate::from_ymd_opt(2023, 12, 31).unwrap())
    } else {
        Some(NaiveDate::from_ymd_opt(2024, 1, d as u32).unwrap())
    }
}

/// Runs the okane CLI in-process; Ok(stdout) or Err(error chain).
pub fn cli(args: &[String]) -> Result<String, String> {
    let mut full = vec!["okane".to_string()];
    full.extend(args.iter().cloned());
    let cli = okane::cmd::Cli::try_parse_from(&full).map_err(|e| format!("clap: {}", e))?;
    let mut out: Vec<u8> = Vec::new();
    match cli.run(&mut out) {
        Ok(()) => Ok(String::from_utf8_lossy(&out).into_owned()),
        Err(e) => {
            use std::error::Error;
            let mut s = format!("{}", e);
            let mut cur: &dyn Error = &e;
            while let Some(src) = cur.source() {
                s.push_str(&format!("\nCaused by {}", src));
                cur = src;
            }
            Err(s)
        }
    }
}

pub fn parse_balance_output(out: &str) -> Option<BTreeMap<String, AmtMap>> {
    let mut m = BTreeMap::new();
    for l in out.lines() {
        let (a, v) = l.rsplit_once(": ")?;
        let am = parse_inline_amount(v)?;
        if !am.is_empty() {
            m.insert(a.to_string(), am);
        }
    }
    Some(m)
}

fn want_bal(v: &Value) -> BTreeMap<String, AmtMap> {
    let mut m = BTreeMap::new();
    if let Some(o) = v.as_object() {
        for (a, x) in o {
            let am = amt(x);
            if !am.is_empty() {
                m.insert(a.clone(), am);
            }
        }
    }
    m
}

pub fn replay(idx: usize, rec: &Value, workdir: &str) -> Value {
    let r = render(&rec["input"]);
    let ex = &rec["expect"];
    let files = vec![("/ledger/main.ledger".to_string(), r.text.clone())];
    let mut viols: Vec<Value> = Vec::new();
    let ranges: Vec<Value> = ex["ranges"].as_array().unwrap().clone();
    let res = guarded(|| {
        let mut viols = Vec::new();
        let arena = bumpalo::Bump::new();
        let mut ctx = ReportContext::new(&arena);
        let loader = fake_loader(&files, "/ledger/main.ledger");
        let res = report::process(&mut ctx, loader, &report::ProcessOptions::default());
        let mut ledger = match res {
            Ok(l) => l,
            Err(e) => {
                viols.push(viol("rejected_valid", format!("{}", e)));
                return viols;
            }
        };
        // whole-history report
        let whole = {
            let b = ledger.balance(&ctx, &query::BalanceQuery::default()).map(|b| b.into_owned());
            match b {
                Ok(b) => {
                    let mut m = BTreeMap::new();
                    for (a, am) in b.into_vec() {
                        let mm = amount_map(&am);
                        // an account must never show a commodity whose total is zero
                        if am.iter().any(|s| s.to_string().split(' ').next().map(|v| v.parse::<rust_decimal::Decimal>().map(|d| d.is_zero()).unwrap_or(false)).unwrap_or(false)) {
                            viols.push(viol("zero_commodity_shown", format!("whole-history balance of {} shows a zero-valued commodity: {}", a.as_str(), am.as_inline_display())));
                        }
                        if !mm.is_empty() { m.insert(a.as_str().to_string(), mm); }
                    }
                    m
                }
                Err(e) => { viols.push(viol("balance_failed", format!("{}", e))); BTreeMap::new() }
            }
        };
        let wb = want_bal(&ex["bal"]);
        if whole != wb {
            viols.push(viol("whole_balance", format!("whole-history balance {:?}, specification says {:?}", whole, wb)));
        }
        // register per account
        if let Some(o) = ex["register"].as_object() {
            for (a, seq) in o {
                let got: Vec<AmtMap> = ledger.postings(&ctx, &query::PostingQuery { account: Some(a.clone()) }).iter().map(|p| amount_map(&p.amount)).collect();
                let want: Vec<AmtMap> = seq.as_array().unwrap().iter().map(amt).collect();
                if got != want {
                    viols.push(viol("register", format!("register of {}: {:?}, specification says {:?}", a, got, want)));
                }
                // register total == whole balance
                let mut tot = AmtMap::new();
                for g in &got { for (c, v) in g { *tot.entry(c.clone()).or_default() += *v; } }
                tot.retain(|_, v| !v.is_zero());
                if tot != whole.get(a).cloned().unwrap_or_default() {
                    viols.push(viol("register_vs_balance", format!("register of {} sums to {:?}, balance report shows {:?}", a, tot, whole.get(a))));
                }
            }
        }
        // every date range
        for rg in &ranges {
            let (s, e) = (rg["s"].as_i64().unwrap(), rg["e"].as_i64().unwrap());
            let q = query::BalanceQuery { conversion: None, date_range: query::DateRange { start: to_date(s), end: to_date(e) } };
            let got = match ledger.balance(&ctx, &q) {
                Ok(b) => {
                    let mut m = BTreeMap::new();
                    for (a, am) in b.into_owned().into_vec() {
                        let mm = amount_map(&am);
                        if !mm.is_empty() { m.insert(a.as_str().to_string(), mm); }
                    }
                    m
                }
                Err(e2) => { viols.push(viol("range_failed", format!("{}", e2))); continue; }
            };
            let want = want_bal(&rg["bal"]);
            if got != want {
                viols.push(viol("range_balance", format!("balance over [{}, {}) is {:?}, specification says {:?}", s, e, got, want)));
                break;
            }
        }
        viols
    });
    match res {
        Ok(v) => viols.extend(v),
        Err(p) => viols.push(viol("panic", p)),
    }
    // the CLI on a sample of records: balance with --start/--end and register
    if viols.is_empty() && idx % 16 == 0 {
        let dir = std::path::PathBuf::from(workdir).join(format!("rep{}", std::process::id()));
        std::fs::create_dir_all(&dir).unwrap();
        let path = dir.join("main.ledger");
        std::fs::write(&path, &r.text).unwrap();
        let ps = path.to_string_lossy().to_string();
        for rg in ranges.iter().step_by(5) {
            let (s, e) = (rg["s"].as_i64().unwrap(), rg["e"].as_i64().unwrap());
            let mut args = vec!["balance".to_string()];
            if let Some(d) = to_date(s) { args.push(format!("--start={}", d)); }
            if let Some(d) = to_date(e) { args.push(format!("--end={}", d)); }
            args.push(ps.clone());
            match guarded(|| cli(&args)) {
                Ok(Ok(out)) => {
                    let want = want_bal(&rg["bal"]);
                    match parse_balance_output(&out) {
                        Some(got) if got == want => {}
                        other => viols.push(viol("cli_range_balance", format!("`okane {}` printed {:?} ({:?}), specification says {:?}", args.join(" "), out, other, want))),
                    }
                }
                Ok(Err(e2)) => viols.push(viol("cli_failed", format!("`okane {}` failed: {}", args.join(" "), e2))),
                Err(p) => viols.push(viol("panic", p)),
            }
        }
        // register: the final running total equals the balance report
        if let Some(o) = ex["register"].as_object() {
            let wb = want_bal(&ex["bal"]);
            for (a, _) in o {
                let args = vec!["register".to_string(), ps.clone(), a.clone()];
                match guarded(|| cli(&args)) {
                    Ok(Ok(out)) => {
                        let last = out.lines().last().unwrap_or("");
                        // "<account> <amount> <running total>": total is the suffix after the posting amount
                        let total = last.strip_prefix(&format!("{} ", a)).and_then(split_two_amounts).map(|(_, t)| t);
                        let want = wb.get(a).cloned().unwrap_or_default();
                        match total.as_deref().and_then(parse_inline_amount) {
                            Some(got) if got == want => {}
                            other => viols.push(viol("cli_register_total", format!("`okane register` last line {:?}: running total {:?}, balance is {:?}", last, other, want))),
                        }
                    }
                    Ok(Err(e2)) => viols.push(viol("cli_failed", format!("register failed: {}", e2))),
                    Err(p) => viols.push(viol("panic", p)),
                }
            }
        }
        let _ = std::fs::remove_dir_all(&dir);
    }
    let dates: std::collections::BTreeSet<i64> = rec["input"].as_array().unwrap().iter().filter(|e| e["k"] == "txn").map(|e| e["date"].as_i64().unwrap()).collect();
    let mut classes = vec![];
    if dates.len() > 1 { classes.push("several_dates".to_string()); }
    let ds: Vec<i64> = rec["input"].as_array().unwrap().iter().filter(|e| e["k"] == "txn").map(|e| e["date"].as_i64().unwrap()).collect();
    if ds.windows(2).any(|w| w[0] > w[1]) { classes.push("non_chronological".to_string()); }
    let _ = (amt_json(&AmtMap::new()), date_str(1));
    json!({"ok": viols.is_empty(), "viol": viols, "classes": classes, "text": if viols.is_empty() { Value::Null } else { json!(r.text) }})
}

/// splits "1 X 2 X" / "(1 X + 2 Y) (3 X + 4 Y)" / "0 0" into (amount, total)
fn split_two_amounts(s: &str) -> Option<(String, String)> {
    let s = s.trim();
    let take = |t: &str| -> Option<usize> {
        if t.starts_with('(') {
            t.find(')').map(|p| p + 1)
        } else if t.starts_with("0 ") && !t[2..].trim_start().is_empty() && {
            // "0 <total>" only when the amount is the bare zero; "0 X ..." is a commodity amount
            let rest = &t[2..];
            rest.starts_with('(') || rest.starts_with('-') || rest.chars().next().map(|c| c.is_ascii_digit()).unwrap_or(false)
        } {
            Some(1)
        } else {
            // "<value> <commodity>"
            let p1 = t.find(' ')?;
            let rest = &t[p1 + 1..];
            let p2 = rest.find(' ').unwrap_or(rest.len());
            Some(p1 + 1 + p2)
        }
    };
    let n = take(s)?;
    let a = s[..n].to_string();
    let t = s[n..].trim().to_string();
    if t.is_empty() { return None; }
    Some((a, t))
}
