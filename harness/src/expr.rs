//! C08: value expressions.  Sentences, their exact value and the verdict at every use
//! site come from spec/Expr.tla; this module feeds the concrete text (two spacing
//! styles) to `Ledger::eval` and places it as posting amount, assigned balance, cost
//! and lot price of a one-transaction ledger processed by `report::process`.
use crate::ledger::{amount_map, fake_loader, run_process, AmtMap, Outcome};
use crate::runner::{guarded, viol};
use chrono::NaiveDate;
use okane_core::report::{self, query, ReportContext};
use rust_decimal::Decimal;
use serde_json::{json, Value};

fn rat(v: &Value) -> Decimal {
    let n = v[0].as_i64().unwrap();
    let d = v[1].as_i64().unwrap();
    Decimal::from(n) / Decimal::from(d)
}

fn want_map(v: &Value) -> AmtMap {
    let mut m = AmtMap::new();
    if let Some(o) = v.as_object() {
        for (c, r) in o {
            let d = rat(r);
            if !d.is_zero() {
                m.insert(c.clone(), d.normalize());
            }
        }
    }
    m
}

fn norm(m: &AmtMap) -> AmtMap {
    m.iter().filter(|(_, v)| !v.is_zero()).map(|(k, v)| (k.clone(), v.normalize())).collect()
}

fn neg(m: &AmtMap) -> AmtMap {
    m.iter().map(|(k, v)| (k.clone(), -*v)).collect()
}

enum Obs {
    Value(AmtMap),
    Rejected(String),
    Panic(String),
}

/// `declared`: the ledger declares a display format without decimals for every commodity; the value of an expression is
/// exact whatever is declared (a declared format is how reports print balances, not a property of arithmetic)
fn eval_obs(text: &str, declared: bool) -> Obs {
    let decl = if declared { "commodity X\n    format 1 X\n\ncommodity Y\n    format 1 Y\n\ncommodity Q\n    format 1 Q\n\n" } else { "" };
    let files = vec![("/l/m.ledger".to_string(), format!("{}2024/01/01 t\n    A  1 X\n    A  1 Y\n    A  1 Q\n    B\n", decl))];
    let text = text.to_string();
    let r = guarded(move || {
        let arena = bumpalo::Bump::new();
        let mut ctx = ReportContext::new(&arena);
        let loader = fake_loader(&files, "/l/m.ledger");
        let mut ledger = match report::process(&mut ctx, loader, &report::ProcessOptions::default()) {
            Ok(l) => l,
            Err(e) => return Obs::Panic(format!("harness ledger rejected: {}", e)),
        };
        let ec = query::EvalContext { date: NaiveDate::from_ymd_opt(2024, 1, 2).unwrap(), exchange: None };
        match ledger.eval(&ctx, &text, &ec) {
            Ok(a) => Obs::Value(norm(&amount_map(&a))),
            Err(e) => Obs::Rejected(format!("{}", e)),
        }
    });
    match r {
        Ok(o) => o,
        Err(p) => Obs::Panic(p),
    }
}

/// posting amount observed through a one-transaction ledger; `which` = index of the posting to read
fn ledger_obs(ledger_text: &str, which: usize) -> Obs {
    match run_process(ledger_text) {
        Outcome::Ok(acc) => match acc.reg.first().and_then(|t| t.1.get(which)) {
            Some((_, m)) => Obs::Value(norm(m)),
            None => Obs::Panic("accepted ledger has no such posting".into()),
        },
        Outcome::Rej(r) => Obs::Rejected(format!("{} {}", r.class, r.kind)),
        Outcome::Panic(p) => Obs::Panic(p),
    }
}

fn judge(pos: &str, text: &str, exp: &Value, want: &AmtMap, obs: Obs, viols: &mut Vec<Value>) {
    let verdict = exp["v"].as_str().unwrap();
    match obs {
        Obs::Panic(p) => viols.push(viol(&format!("panic_{}", pos), format!("`{}` as {}: panic: {}", text, pos, p))),
        Obs::Rejected(why) => {
            if verdict == "ok" {
                viols.push(viol(&format!("rejected_welltyped_{}", pos), format!("`{}` as {} is well-typed (value {:?}) but is rejected: {}", text, pos, want, why)));
            }
        }
        Obs::Value(got) => match verdict {
            "rej" => viols.push(viol(&format!("accepted_illtyped_{}", pos), format!("`{}` as {} must be rejected, okane computed {:?}", text, pos, got))),
            "ok" | "either" => {
                if &got != want {
                    viols.push(viol(&format!("wrong_value_{}", pos), format!("`{}` as {}: okane computed {:?}, ordinary arithmetic gives {:?}", text, pos, got, want)));
                }
            }
            _ => {}
        },
    }
}

pub fn replay(_idx: usize, rec: &Value) -> Value {
    let mut viols = Vec::new();
    let uses = &rec["uses"];
    let mut texts = vec![rec["spaced"].as_str().unwrap().to_string()];
    if rec["tight"] != rec["spaced"] {
        texts.push(rec["tight"].as_str().unwrap().to_string());
    }
    for text in &texts {
        // the sentence is in the documented grammar: it must parse
        let t2 = text.clone();
        match guarded(move || okane_core::syntax::expr::ValueExpr::try_from(t2.as_str()).map(|_| ()).map_err(|e| e.to_string())) {
            Err(p) => { viols.push(viol("panic_parse", format!("`{}`: parser panicked: {}", text, p))); continue; }
            Ok(Err(e)) => { viols.push(viol("parse_rejected", format!("`{}` follows the documented expression grammar but does not parse: {}", text, e.lines().next().unwrap_or("")))); continue; }
            Ok(Ok(())) => {}
        }
        // eval
        judge("eval", text, &uses["eval"], &want_map(&uses["eval"]["a"]), eval_obs(text, false), &mut viols);
        judge("eval_declared_format", text, &uses["eval"], &want_map(&uses["eval"]["a"]), eval_obs(text, true), &mut viols);
        // posting amount
        let w = want_map(&uses["amount"]["a"]);
        judge("amount", text, &uses["amount"], &w, ledger_obs(&format!("2024/01/01 t\n    A  {}\n    B\n", text), 0), &mut viols);
        // assigned balance on a fresh account: the posting amount is the asserted value
        let w = want_map(&uses["assign"]["a"]);
        judge("assign", text, &uses["assign"], &w, ledger_obs(&format!("2024/01/01 t\n    A  = {}\n    B\n", text), 0), &mut viols);
        // cost rate: the other posting absorbs -(1 * rate)
        let w = neg(&want_map(&uses["cost"]["a"]));
        judge("cost", text, &uses["cost"], &w, ledger_obs(&format!("2024/01/01 t\n    A  1 Q @ {}\n    B\n", text), 1), &mut viols);
        // a total cost takes the sign of the quantity: the other posting absorbs -|total|
        let w: AmtMap = want_map(&uses["cost"]["a"]).iter().map(|(k, v)| (k.clone(), -v.abs())).collect();
        judge("total_cost", text, &uses["cost"], &w, ledger_obs(&format!("2024/01/01 t\n    A  1 Q @@ {}\n    B\n", text), 1), &mut viols);
        // lot price (value expressions in braces are an extension of the documented grammar: a parse error there is not reported)
        let lot_text = format!("2024/01/01 t\n    A  1 Q {{{}}}\n    B\n", text);
        if crate::synproj::parse_all(&lot_text).is_ok() {
            let w = neg(&want_map(&uses["lot"]["a"]));
            judge("lot", text, &uses["lot"], &w, ledger_obs(&lot_text, 1), &mut viols);
        }
    }
    let mut classes: Vec<String> = Vec::new();
    let nops = rec["nops"].as_i64().unwrap_or(0);
    if nops >= 1 { classes.push(format!("ops{}", nops)); }
    classes.push(format!("value_{}", rec["value"]["t"].as_str().unwrap()));
    for p in ["amount", "cost", "eval"] {
        classes.push(format!("{}_{}", p, uses[p]["v"].as_str().unwrap()));
    }
    let nontrivial = nops >= 1;
    json!({"ok": viols.is_empty(), "viol": viols, "classes": if nontrivial { classes } else { vec![] }, "observed": {"texts": texts}})
}
