//! C17: layered configuration (ConfigSet::select) and the rewrite-rule fold, observed
//! through the CSV importer.  Behaviours come from spec/ImportRules.tla.
use crate::runner::{guarded, viol};
use okane::import::{self, config, Format};
use okane_core::syntax;
use serde_json::{json, Value};

fn q(s: &str) -> String {
    serde_json::to_string(s).unwrap() // a JSON string is a YAML double-quoted string
}

fn opt(v: &Value) -> Option<&str> {
    match v.as_str() {
        Some("~") | None => None,
        Some(s) => Some(s),
    }
}

pub fn rule_yaml(r: &Value, indent: &str) -> String {
    let mut s = String::new();
    let or = r["or"].as_array().unwrap();
    s.push_str(&format!("{}- matcher:\n", indent));
    if or.len() == 1 {
        for f in or[0].as_array().unwrap() {
            s.push_str(&format!("{}    {}: {}\n", indent, f["field"].as_str().unwrap(), q(f["pat"].as_str().unwrap())));
        }
    } else {
        for and in or {
            let mut first = true;
            for f in and.as_array().unwrap() {
                s.push_str(&format!("{}    {} {}: {}\n", indent, if first { "-" } else { " " }, f["field"].as_str().unwrap(), q(f["pat"].as_str().unwrap())));
                first = false;
            }
        }
    }
    if r["pending"] == true {
        s.push_str(&format!("{}  pending: true\n", indent));
    }
    if let Some(p) = opt(&r["payee"]) {
        s.push_str(&format!("{}  payee: {}\n", indent, q(p)));
    }
    if let Some(a) = opt(&r["account"]) {
        s.push_str(&format!("{}  account: {}\n", indent, q(a)));
    }
    s
}

fn rules_yaml(rules: &Value) -> String {
    let rs = rules.as_array().unwrap();
    if rs.is_empty() {
        return "rewrite: []\n".to_string();
    }
    let mut s = "rewrite:\n".to_string();
    for r in rs {
        s.push_str(&rule_yaml(r, "  "));
    }
    s
}

fn clear_str(c: &syntax::ClearState) -> &'static str {
    match c {
        syntax::ClearState::Uncleared => "",
        syntax::ClearState::Cleared => "*",
        syntax::ClearState::Pending => "!",
    }
}

fn check_table(rec: &Value, viols: &mut Vec<Value>) {
    let table = rec["table"].as_object().unwrap();
    let texts: Vec<&str> = rec["texts"].as_array().unwrap().iter().map(|t| t.as_str().unwrap()).collect();
    for (pat, row) in table {
        let re = match import::extract::regex_matcher(pat) {
            Ok(r) => r,
            Err(e) => { viols.push(viol("table_mismatch", format!("pattern {} does not compile: {}", pat, e))); continue; }
        };
        for t in &texts {
            let got = re.captures(t).map(|c| (c.name("payee").map(|m| m.as_str().to_string()), c.name("code").map(|m| m.as_str().to_string())));
            let want = row.get(*t).filter(|w| w["m"] == true).map(|w| (opt(&w["payee"]).map(String::from), opt(&w["code"]).map(String::from)));
            if got != want {
                viols.push(viol("table_mismatch", format!("Match({:?}, {:?}): the specification's table says {:?}, the regex engine {:?}", pat, t, want, got)));
            }
        }
    }
}

fn replay_rules(rec: &Value, viols: &mut Vec<Value>) -> Value {
    let yaml = format!(
        "path: t.csv\nencoding: UTF-8\naccount: \"Assets:Src\"\naccount_type: asset\ncommodity: USD\nformat:\n  date: \"%Y-%m-%d\"\n  fields:\n    date: 1\n    amount: 2\n    payee: 3\n    category: 4\n{}",
        rules_yaml(&rec["rules"]));
    let payee = rec["rec"]["payee"].as_str().unwrap();
    let cat = opt(&rec["rec"]["category"]).unwrap_or("");
    let csv = format!("date,amount,payee,category\n2024-01-05,-10.00,{},{}\n2024-01-06,5.00,{},{}\n", payee, cat, payee, cat);
    let y2 = yaml.clone();
    let r = guarded(move || -> Result<Vec<Value>, String> {
        let set = config::load_from_yaml(y2.as_bytes()).map_err(|e| format!("config: {}", e))?;
        let entry = set.select(std::path::Path::new("/data/t.csv")).map_err(|e| format!("select: {}", e))?.ok_or("no config selected")?;
        let txns = import::import(csv.as_bytes(), Format::Csv, &entry).map_err(|e| format!("import: {}", e))?;
        let mut out = Vec::new();
        for t in &txns {
            let d = t.to_double_entry("Assets:Src").map_err(|e| format!("to_double_entry: {}", e))?;
            let counter = d.posts.iter().find(|p| p.account.as_ref() != "Assets:Src").ok_or("no counter posting")?;
            out.push(json!({"payee": d.payee.as_ref(), "code": d.code.as_ref().map(|c| c.as_ref().to_string()),
                            "account": counter.account.as_ref(), "pending": clear_str(&counter.clear_state) == "!",
                            "counter_clear": clear_str(&counter.clear_state)}));
        }
        Ok(out)
    });
    match r {
        Err(p) => { viols.push(viol("panic", format!("import panicked: {}", p))); Value::Null }
        Ok(Err(e)) => { viols.push(viol("import_failed", format!("{}\n{}", e, yaml))); Value::Null }
        Ok(Ok(out)) => {
            if out.len() != 2 {
                viols.push(viol("record_count", format!("{} transactions for 2 rows", out.len())));
                return json!(out);
            }
            for (got, want, which) in [(&out[0], &rec["expect"]["neg"], "debit row"), (&out[1], &rec["expect"]["pos"], "credit row")] {
                let want_code = opt(&want["code"]);
                if got["payee"] != want["payee"] {
                    viols.push(viol("payee", format!("{}: payee {} , the rules give {}", which, got["payee"], want["payee"])));
                } else if got["code"].as_str() != want_code {
                    viols.push(viol("code", format!("{}: code {:?}, the rules give {:?}", which, got["code"], want_code)));
                } else if got["account"] != want["account"] {
                    viols.push(viol("account", format!("{}: counter account {}, the rules give {}", which, got["account"], want["account"])));
                } else if got["pending"] != want["pending"] {
                    viols.push(viol("pending", format!("{}: counter posting marked {:?}, pending should be {}", which, got["counter_clear"], want["pending"])));
                }
            }
            json!(out)
        }
    }
}

fn replay_layers(rec: &Value, viols: &mut Vec<Value>) -> Value {
    let mut yaml = String::new();
    for (i, d) in rec["docs"].as_array().unwrap().iter().enumerate() {
        if i > 0 { yaml.push_str("---\n"); }
        yaml.push_str(&format!("path: {}\nencoding: UTF-8\n", q(d["path"].as_str().unwrap())));
        for k in ["account", "account_type", "commodity", "operator"] {
            if let Some(v) = opt(&d[k]) {
                yaml.push_str(&format!("{}: {}\n", k, q(v)));
            }
        }
        yaml.push_str(&rules_yaml(&d["rules"]));
    }
    let file = rec["file"].as_str().unwrap().to_string();
    let y2 = yaml.clone();
    let r = guarded(move || -> Result<Value, String> {
        if y2.is_empty() {
            return Ok(json!({"found": false}));
        }
        let set = config::load_from_yaml(y2.as_bytes()).map_err(|e| format!("config: {}", e))?;
        match set.select(std::path::Path::new(&file)) {
            Ok(None) => Ok(json!({"found": false})),
            Err(e) => Ok(json!({"found": true, "valid": false, "err": format!("{}", e)})),
            Ok(Some(e)) => Ok(json!({"found": true, "valid": true, "path": e.path, "account": e.account,
                "account_type": match e.account_type { config::AccountType::Asset => "asset", config::AccountType::Liability => "liability" },
                "commodity": e.commodity.primary, "operator": e.operator,
                "rules": e.rewrite.iter().map(|r| r.account.clone()).collect::<Vec<_>>()})),
        }
    });
    let ex = &rec["expect"];
    match r {
        Err(p) => { viols.push(viol("panic", format!("select panicked: {}", p))); Value::Null }
        Ok(Err(e)) => { viols.push(viol("config_failed", format!("{}\n{}", e, yaml))); Value::Null }
        Ok(Ok(got)) => {
            if got["found"] != ex["found"] {
                viols.push(viol("select_found", format!("select found={}, specification says {}", got["found"], ex["found"])));
            } else if ex["found"] == true {
                if got["valid"] != ex["valid"] {
                    viols.push(viol("select_valid", format!("merged configuration valid={} ({}), specification says {}", got["valid"], got["err"], ex["valid"])));
                } else if ex["valid"] == true {
                    let c = &ex["cfg"];
                    for k in ["path", "account", "account_type", "commodity"] {
                        if got[k] != c[k] {
                            viols.push(viol(&format!("select_{}", k), format!("{} = {}, merge in path-length order gives {}", k, got[k], c[k])));
                        }
                    }
                    if got["operator"].as_str() != opt(&c["operator"]) {
                        viols.push(viol("select_operator", format!("operator = {}, merge gives {}", got["operator"], c["operator"])));
                    }
                    let want_rules: Vec<Option<&str>> = c["rules"].as_array().unwrap().iter().map(|r| opt(&r["account"])).collect();
                    let got_rules: Vec<Option<&str>> = got["rules"].as_array().unwrap().iter().map(|r| r.as_str()).collect();
                    if want_rules != got_rules {
                        viols.push(viol("select_rules", format!("rewrite rules (by account) {:?}, concatenation in path-length order gives {:?}", got_rules, want_rules)));
                    }
                }
            }
            got
        }
    }
}

fn xml_text(s: &str) -> String { s.replace('&', "&amp;").replace('<', "&lt;").replace('>', "&gt;") }

/// Camt053: one debit detail whose every named field carries its own text; one rule on one field.
fn replay_camt(rec: &Value, viols: &mut Vec<Value>) -> Value {
    let f = |k: &str| xml_text(rec["fields"][k].as_str().unwrap());
    let xml = format!("<?xml version=\"1.0\" encoding=\"UTF-8\"?>\n<Document><BkToCstmrStmt><Stmt>\n<Bal><Tp><CdOrPrtry><Cd>CLBD</Cd></CdOrPrtry></Tp><Amt Ccy=\"CHF\">5</Amt><CdtDbtInd>DBIT</CdtDbtInd></Bal>\n<Ntry><Amt Ccy=\"CHF\">5</Amt><CdtDbtInd>DBIT</CdtDbtInd><BookgDt><Dt>2024-01-05</Dt></BookgDt><ValDt><Dt>2024-01-05</Dt></ValDt><BkTxCd><Domn><Cd>PMNT</Cd><Fmly><Cd>ICDT</Cd><SubFmlyCd>AUTT</SubFmlyCd></Fmly></Domn></BkTxCd><NtryDtls><Btch><NbOfTxs>1</NbOfTxs></Btch><TxDtls><Refs><AcctSvcrRef>R1</AcctSvcrRef></Refs><Amt Ccy=\"CHF\">5</Amt><CdtDbtInd>DBIT</CdtDbtInd><RltdPties><Dbtr><Nm>{}</Nm></Dbtr><DbtrAcct><Id><IBAN>{}</IBAN></Id></DbtrAcct><UltmtDbtr><Nm>{}</Nm></UltmtDbtr><Cdtr><Nm>{}</Nm></Cdtr><CdtrAcct><Id><IBAN>{}</IBAN></Id></CdtrAcct><UltmtCdtr><Nm>{}</Nm></UltmtCdtr></RltdPties><RmtInf><Ustrd>{}</Ustrd></RmtInf><AddtlTxInf>{}</AddtlTxInf></TxDtls></NtryDtls><AddtlNtryInf>{}</AddtlNtryInf></Ntry>\n</Stmt></BkToCstmrStmt></Document>\n",
        f("debtor_name"), f("debtor_account_id"), f("ultimate_debtor_name"), f("creditor_name"), f("creditor_account_id"), f("ultimate_creditor_name"),
        f("remittance_unstructured_info"), f("additional_transaction_info"), f("additional_entry_info"));
    let yaml = format!("path: stmt.xml\nencoding: UTF-8\naccount: \"Assets:Src\"\naccount_type: asset\ncommodity: CHF\n{}", rules_yaml(&rec["rules"]));
    let (x2, y2) = (xml.clone(), yaml.clone());
    let r = guarded(move || -> Result<Value, String> {
        let set = config::load_from_yaml(y2.as_bytes()).map_err(|e| format!("config: {}", e))?;
        let entry = set.select(std::path::Path::new("/data/stmt.xml")).map_err(|e| format!("select: {}", e))?.ok_or("no config selected")?;
        let txns = import::import(x2.as_bytes(), Format::IsoCamt053, &entry).map_err(|e| format!("import: {}", e))?;
        let t = txns.last().ok_or("no transaction")?;
        let d = t.to_double_entry("Assets:Src").map_err(|e| format!("to_double_entry: {}", e))?;
        let counter = d.posts.iter().find(|p| p.account.as_ref() != "Assets:Src").ok_or("no counter posting")?;
        Ok(json!({"account": counter.account.as_ref(), "pending": clear_str(&counter.clear_state) == "!"}))
    });
    match r {
        Err(p) => { viols.push(viol("panic", format!("import panicked: {}", p))); Value::Null }
        Ok(Err(e)) => { viols.push(viol("import_failed", format!("{}\n{}", e, yaml))); Value::Null }
        Ok(Ok(got)) => {
            let want = &rec["expect"];
            let rule = &rec["rules"][0]["or"][0][0];
            if got["account"] != want["account"] || got["pending"] != want["pending"] {
                viols.push(viol("camt_field_source", format!("a rule on `{}` with pattern {} gives counter account {} (pending {}), expected {} (pending {}): the field must be read from its own element",
                    rule["field"].as_str().unwrap(), rule["pat"], got["account"], got["pending"], want["account"], want["pending"])));
            }
            got
        }
    }
}

pub fn replay(_idx: usize, rec: &Value) -> Value {
    let mut viols = Vec::new();
    let sc = rec["scenario"].as_str().unwrap();
    let observed = match sc {
        "table" => { check_table(rec, &mut viols); Value::Null }
        "rules" => replay_rules(rec, &mut viols),
        "layers" => replay_layers(rec, &mut viols),
        "camt" => replay_camt(rec, &mut viols),
        _ => panic!("unknown scenario"),
    };
    let mut classes = vec![sc.to_string()];
    if sc == "rules" {
        let n = rec["rules"].as_array().unwrap().len();
        if n >= 2 { classes.push("multi_rule".into()); } else { classes.clear(); }
    }
    if sc == "layers" {
        if rec["docs"].as_array().unwrap().len() < 2 { classes.clear(); }
    }
    json!({"ok": viols.is_empty(), "viol": viols, "classes": classes, "observed": observed})
}
