//! C09 (and the price part of C10): price events of a spec/Price.tla behaviour
//! realised as a ledger (costs, totals, lot prices, implied exchanges) plus a
//! price-database file; every conversion query is compared with the admissible
//! set computed by the specification.
use crate::ledger::{amount_map, fake_loader};
use crate::report::to_date;
use crate::runner::{guarded, viol};
use okane_core::report::{self, query, ReportContext};
use rust_decimal::Decimal;
use serde_json::{json, Value};
use std::path::PathBuf;

pub fn rate_dec(r: &Value) -> Decimal {
    let (a, b) = (r[0].as_i64().unwrap(), r[1].as_i64().unwrap());
    let mut v = Decimal::ONE;
    for _ in 0..a.max(0) { v *= Decimal::new(2, 0); }
    for _ in 0..(-a).max(0) { v *= Decimal::new(5, 1); }
    for _ in 0..b.max(0) { v *= Decimal::new(5, 0); }
    for _ in 0..(-b).max(0) { v *= Decimal::new(2, 1); }
    v.normalize()
}

pub fn day_str(d: i64) -> String {
    to_date(d).unwrap().format("%Y/%m/%d").to_string()
}

/// returns (ledger text, price db text)
pub fn render_events(events: &[Value]) -> (String, String) {
    let mut ledger = String::new();
    let mut db = String::new();
    let mut k = 0usize;
    for e in events {
        let (of, with) = (e["of"].as_str().unwrap(), e["with"].as_str().unwrap());
        let r = rate_dec(&e["r"]);
        let d = day_str(e["date"].as_i64().unwrap());
        if e["src"] == "db" {
            db.push_str(&format!("P {} {} {} {}\n", d, of, r, with));
            continue;
        }
        ledger.push_str(&format!("{} price event {}\n", d, k + 1));
        match k % 4 {
            0 => ledger.push_str(&format!("    Assets:Broker  1 {} @ {} {}\n    Equity\n", of, r, with)),
            1 => ledger.push_str(&format!("    Assets:Broker  -2 {} @@ {} {}\n    Equity\n", of, r * Decimal::new(2, 0), with)),
            2 => ledger.push_str(&format!("    Assets:Broker  4 {} {{{} {}}}\n    Equity\n", of, r, with)),
            _ => ledger.push_str(&format!("    Assets:Broker  1 {}\n    Assets:Bank  -{} {}\n", of, r, with)),
        }
        ledger.push('\n');
        k += 1;
    }
    if ledger.is_empty() {
        ledger.push_str("; no ledger-derived prices\n");
    }
    (ledger, db)
}

pub fn replay(idx: usize, rec: &Value, workdir: &str) -> Value {
    let events = rec["events"].as_array().unwrap();
    let (ledger_txt, db_txt) = render_events(events);
    let dir = PathBuf::from(workdir).join(format!("price{}", std::process::id()));
    std::fs::create_dir_all(&dir).unwrap();
    let dbpath = dir.join(format!("prices_{}.db", idx));
    let has_db = !db_txt.is_empty();
    if has_db {
        std::fs::write(&dbpath, &db_txt).unwrap();
    }
    let files = vec![("/ledger/main.ledger".to_string(), ledger_txt.clone())];
    let conv: Vec<Value> = rec["conv"].as_array().unwrap().clone();
    let res = guarded(|| {
        let mut viols = Vec::new();
        let arena = bumpalo::Bump::new();
        let mut ctx = ReportContext::new(&arena);
        let loader = fake_loader(&files, "/ledger/main.ledger");
        let opts = report::ProcessOptions { price_db_path: if has_db { Some(dbpath.clone()) } else { None } };
        let res = report::process(&mut ctx, loader, &opts);
        let mut ledger = match res {
            Ok(l) => l,
            Err(e) => {
                let mut s = format!("{}", e);
                use std::error::Error;
                if let Some(src) = e.source() { s.push_str(&format!(" / {}", src)); }
                viols.push(viol("rejected_valid", s));
                return viols;
            }
        };
        for q in &conv {
            let (from, to, day) = (q["from"].as_str().unwrap(), q["to"].as_str().unwrap(), q["day"].as_i64().unwrap());
            let want: Vec<Decimal> = q["rates"].as_array().unwrap().iter().map(rate_dec).collect();
            let r = ledger.eval(&ctx, &format!("1 {}", from), &query::EvalContext { date: to_date(day).unwrap(), exchange: Some(to.to_string()) });
            match r {
                Ok(a) => {
                    let m = amount_map(&a);
                    if want.is_empty() {
                        viols.push(viol("converted_without_price", format!("1 {} in {} as of day {}: okane answers {:?}, no admissible chain exists", from, to, day, m)));
                    } else if m.len() != 1 || !m.contains_key(to) || !want.iter().any(|w| *w == m[to]) {
                        viols.push(viol("wrong_rate", format!("1 {} in {} as of day {}: okane answers {:?}, admissible rates are {:?}", from, to, day, m, want)));
                    }
                }
                Err(e) => {
                    if !want.is_empty() {
                        viols.push(viol("conversion_failed", format!("1 {} in {} as of day {}: okane fails ({}), admissible rates are {:?}", from, to, day, e, want)));
                    }
                }
            }
            if viols.len() >= 3 { break; }
        }
        viols
    });
    let _ = std::fs::remove_file(&dbpath);
    let viols = match res { Ok(v) => v, Err(p) => vec![viol("panic", p)] };
    let mut classes = Vec::new();
    if events.len() >= 2 { classes.push("multi_event"); }
    if conv.iter().any(|q| q["rates"].as_array().unwrap().len() > 1) { classes.push("tie"); }
    if events.iter().any(|e| e["src"] == "db") && events.iter().any(|e| e["src"] == "ledger") { classes.push("db_and_ledger"); }
    json!({"ok": viols.is_empty(), "viol": viols, "classes": classes,
           "text": if viols.is_empty() { Value::Null } else { json!({"ledger": ledger_txt, "pricedb": db_txt}) }})
}
