//! C18: Camt053 import.  Statements come from spec/ImportCamt.tla; rendered as XML,
//! imported through okane::import::import(IsoCamt053) + to_double_entry, compared with the
//! expected ledger, and `okane import`'s output (after a funding transaction giving the
//! account the opening balance) is fed to okane's book-keeping.
use crate::csvimp::dec_opt;
use crate::ledger::{run_process, Outcome};
use crate::runner::{guarded, viol};
use crate::synproj;
use okane::import::{self, config, Format};
use rust_decimal::Decimal;
use serde_json::{json, Value};
use std::path::PathBuf;

fn two(d: Decimal) -> String {
    let mut d = d.abs();
    if d.scale() < 2 { d.rescale(2); }
    d.to_string()
}

fn date(day: i64) -> String { format!("2024-01-{:02}", day) }

fn balance_xml(code: &str, v: Decimal) -> String {
    format!("<Bal><Tp><CdOrPrtry><Cd>{}</Cd></CdOrPrtry></Tp><Amt Ccy=\"CHF\">{}</Amt><CdtDbtInd>{}</CdtDbtInd><Dt><Dt>2024-01-01</Dt></Dt></Bal>\n",
            code, two(v), if v.is_sign_negative() && !v.is_zero() { "DBIT" } else { "CRDT" })
}

pub fn build_xml(rec: &Value) -> String {
    let opening = dec_opt(&rec["opening"]).unwrap();
    let closing = dec_opt(&rec["closing"]).unwrap();
    let mut s = String::from("<?xml version=\"1.0\" encoding=\"UTF-8\"?>\n<Document xmlns=\"urn:iso:std:iso:20022:tech:xsd:camt.053.001.04\">\n<BkToCstmrStmt>\n<Stmt>\n<Id>S1</Id>\n");
    s.push_str(&balance_xml("OPBD", opening));
    s.push_str(&balance_xml("CLBD", closing));
    let entries = rec["entries"].as_array().unwrap();
    let idx: Vec<usize> = if rec["order"] == "new_to_old" { (0..entries.len()).rev().collect() } else { (0..entries.len()).collect() };
    for k in idx {
        let e = &entries[k];
        let cd = e["cd"].as_str().unwrap();
        s.push_str(&format!("<Ntry><Amt Ccy=\"CHF\">{}</Amt><CdtDbtInd>{}</CdtDbtInd><Sts>BOOK</Sts><BookgDt><Dt>{}</Dt></BookgDt><ValDt><Dt>{}</Dt></ValDt>\n",
            two(dec_opt(&e["amt"]).unwrap()), cd, date(e["bday"].as_i64().unwrap()), date(e["vday"].as_i64().unwrap())));
        s.push_str("<BkTxCd><Domn><Cd>PMNT</Cd><Fmly><Cd>RCDT</Cd><SubFmlyCd>OTHR</SubFmlyCd></Fmly></Domn></BkTxCd>\n");
        let details = e["details"].as_array().unwrap();
        let echarge = dec_opt(&e["charge"]).unwrap_or(Decimal::ZERO);
        if !echarge.is_zero() {
            s.push_str(&format!("<Chrgs><TtlChrgsAndTaxAmt Ccy=\"CHF\">{}</TtlChrgsAndTaxAmt><Rcrd><Amt Ccy=\"CHF\">{}</Amt><CdtDbtInd>{}</CdtDbtInd><ChrgInclInd>{}</ChrgInclInd></Rcrd></Chrgs>\n",
                two(echarge), two(echarge), if echarge.is_sign_negative() { "CRDT" } else { "DBIT" }, e["chargeincl"] != false));
        }
        if !details.is_empty() {
            s.push_str(&format!("<NtryDtls><Btch><NbOfTxs>{}</NbOfTxs></Btch>\n", details.len()));
            for (j, d) in details.iter().enumerate() {
                let amt = dec_opt(&d["amt"]).unwrap();
                let charge = dec_opt(&d["charge"]).unwrap();
                let dcd = if d["rev"] == true { if cd == "CRDT" { "DBIT" } else { "CRDT" } } else { cd };
                let reference = if e["sameref"] == true { format!("R{}", k + 1) } else { format!("R{}-{}", k + 1, j + 1) };
                s.push_str(&format!("<TxDtls><Refs><AcctSvcrRef>{}</AcctSvcrRef></Refs><Amt Ccy=\"CHF\">{}</Amt><CdtDbtInd>{}</CdtDbtInd>\n", reference, two(amt), dcd));
                if !charge.is_zero() {
                    if d["figures"] != false {
                    s.push_str(&format!("<AmtDtls><InstdAmt><Amt Ccy=\"CHF\">{}</Amt></InstdAmt><TxAmt><Amt Ccy=\"CHF\">{}</Amt></TxAmt></AmtDtls>\n", two(if dcd == "CRDT" { amt + charge } else { amt - charge }), two(if dcd == "CRDT" { amt + charge } else { amt - charge })));
                    }
                    s.push_str(&format!("<Chrgs><TtlChrgsAndTaxAmt Ccy=\"CHF\">{}</TtlChrgsAndTaxAmt><Rcrd><Amt Ccy=\"CHF\">{}</Amt><CdtDbtInd>{}</CdtDbtInd><ChrgInclInd>{}</ChrgInclInd></Rcrd></Chrgs>\n",
                        two(charge), two(charge), if charge.is_sign_negative() { "CRDT" } else { "DBIT" }, d["incl"] != false));
                }
                s.push_str(&format!("<RltdPties><Cdtr><Nm>Party {}</Nm></Cdtr></RltdPties><AddtlTxInf>detail {}</AddtlTxInf></TxDtls>\n", j + 1, j + 1));
            }
            s.push_str("</NtryDtls>\n");
        }
        s.push_str(&format!("<AddtlNtryInf>entry {}</AddtlNtryInf></Ntry>\n", k + 1));
    }
    s.push_str("</Stmt>\n</BkToCstmrStmt>\n</Document>\n");
    s
}

pub fn yaml(rec: &Value) -> String {
    format!("path: stmt.xml\nencoding: UTF-8\naccount: \"Assets:Src\"\naccount_type: asset\noperator: \"Bank (fee)\"\ncommodity: CHF\nformat:\n  row_order: {}\n  commodity:\n    CHF:\n      precision: 2\nrewrite:\n  - matcher:\n      additional_entry_info: \"(?P<payee>entry .*)\"\n",
            rec["order"].as_str().unwrap())
}

fn lit(v: &Value) -> Option<(Decimal, String)> {
    let v = crate::syntax::normal(v);
    if v["t"] != "amt" { return None; }
    let n = &v["a"]["n"];
    let m: i128 = n["m"].as_str().unwrap().parse().unwrap_or(0);
    let mut d = Decimal::from_i128_with_scale(m, n["s"].as_u64().unwrap() as u32);
    if n["neg"] == true { d = -d; }
    Some((d, v["a"]["c"].as_str().unwrap().to_string()))
}

fn compare(got: &[Value], rec: &Value, viols: &mut Vec<Value>) {
    let want = rec["expect"].as_array().unwrap();
    if got.len() != want.len() {
        viols.push(viol("transaction_count", format!("{} transactions, the statement gives an opening transaction + {} (one per entry / detail)", got.len(), want.len() - 1)));
        return;
    }
    for (k, (g, w)) in got.iter().zip(want.iter()).enumerate() {
        let posts = g["posts"].as_array().unwrap();
        let src: Vec<&Value> = posts.iter().filter(|p| p["account"] == "Assets:Src").collect();
        if src.len() != 1 {
            viols.push(viol("account_posting", format!("transaction {}: {} postings on the account", k + 1, src.len())));
            continue;
        }
        let want_src = dec_opt(&w["src"]).unwrap();
        match lit(&src[0]["amount"]) {
            Some((v, c)) if v == want_src && c == "CHF" => {}
            other => viols.push(viol("account_amount", format!("transaction {}: account posting {:?}, the statement gives {} CHF (credit positive, debit negative)", k + 1, other, want_src))),
        }
        let want_assert = dec_opt(&w["assert"]);
        let got_assert = if src[0]["balance"].is_null() { None } else { lit(&src[0]["balance"]).map(|x| x.0) };
        if want_assert != got_assert {
            viols.push(viol("balance_assertion", format!("transaction {}: asserts {:?}, expected {:?} (opening on the first, closing on the last, nothing in between)", k + 1, got_assert, want_assert)));
        }
        if k > 0 {
            let d = date(w["day"].as_i64().unwrap());
            if g["date"] != d.as_str() {
                viols.push(viol("value_date", format!("transaction {} dated {}, value date is {}", k + 1, g["date"], d)));
            }
            let ed = w["eday"].as_i64().unwrap();
            let want_ed = if ed == 0 { Value::Null } else { json!(date(ed)) };
            if g["edate"] != want_ed {
                viols.push(viol("effective_date", format!("transaction {}: effective date {}, expected {}", k + 1, g["edate"], want_ed)));
            }
            let want_code = w["code"].as_str().unwrap();
            let got_code = g["code"].as_str().unwrap_or("");
            if want_code != got_code {
                viols.push(viol("detail_identity", format!("transaction {}: code {:?}, expected {:?} (one transaction per detail, in order)", k + 1, got_code, want_code)));
            }
            // counter and charge postings
            let want_dest = dec_opt(&w["dest"]).unwrap();
            let want_charge = dec_opt(&w["charge"]).unwrap();
            let others: Vec<(String, Decimal)> = posts.iter().filter(|p| p["account"] != "Assets:Src").filter_map(|p| lit(&p["amount"]).map(|x| (p["account"].as_str().unwrap().to_string(), x.0))).collect();
            let charge_sum: Decimal = others.iter().filter(|o| o.0 == "Expenses:Commissions").map(|o| o.1).sum();
            let dest_sum: Decimal = others.iter().filter(|o| o.0 != "Expenses:Commissions").map(|o| o.1).sum();
            if w["loose"] == true {
                // the division between counter posting and commissions is not fixed by the property: the transaction balances
                if charge_sum + dest_sum + want_src != Decimal::ZERO {
                    viols.push(viol("counter_amount", format!("transaction {}: counter {} + charges {} do not balance the account posting {}", k + 1, dest_sum, charge_sum, want_src)));
                }
            } else if charge_sum != want_charge || dest_sum != want_dest {
                viols.push(viol("counter_amount", format!("transaction {}: counter {} + charges {}, expected {} + {}", k + 1, dest_sum, charge_sum, want_dest, want_charge)));
            }
        }
    }
}

pub fn replay(idx: usize, rec: &Value, workdir: &str) -> Value {
    let xml = build_xml(rec);
    let y = yaml(rec);
    let mut viols = Vec::new();
    let (x2, y2) = (xml.clone(), y.clone());
    let r = guarded(move || -> Result<Vec<Value>, String> {
        let set = config::load_from_yaml(y2.as_bytes()).map_err(|e| format!("config: {}", e))?;
        let entry = set.select(std::path::Path::new("/data/stmt.xml")).map_err(|e| format!("select: {}", e))?.ok_or("no config selected")?;
        let txns = import::import(x2.as_bytes(), Format::IsoCamt053, &entry).map_err(|e| format!("import: {}", e))?;
        let mut out = Vec::new();
        for t in &txns {
            let d = t.to_double_entry("Assets:Src").map_err(|e| format!("to_double_entry: {}", e))?;
            out.push(synproj::entry(&okane_core::syntax::LedgerEntry::Txn(d)));
        }
        Ok(out)
    });
    match r {
        Err(p) => viols.push(viol("panic", format!("import panicked: {}", p))),
        Ok(Err(e)) => viols.push(viol("import_failed", e)),
        Ok(Ok(tree)) => compare(&tree, rec, &mut viols),
    }
    if viols.is_empty() {
        let dir = PathBuf::from(workdir).join(format!("camt{}_{}", std::process::id(), idx));
        let _ = std::fs::remove_dir_all(&dir);
        std::fs::create_dir_all(&dir).unwrap();
        let (cp, sp) = (dir.join("config.yml"), dir.join("stmt.xml"));
        std::fs::write(&cp, &y).unwrap();
        std::fs::write(&sp, &xml).unwrap();
        let args = vec!["import".to_string(), "-c".to_string(), cp.to_string_lossy().to_string(), sp.to_string_lossy().to_string()];
        match guarded(|| crate::report::cli(&args)) {
            Err(p) => viols.push(viol("panic", format!("`okane import` panicked: {}", p))),
            Ok(Err(e)) => viols.push(viol("import_failed", format!("`okane import` failed: {}", e))),
            Ok(Ok(text)) => {
                let opening = dec_opt(&rec["opening"]).unwrap();
                let closing = dec_opt(&rec["closing"]).unwrap();
                let mut ledger = String::new();
                if !opening.is_zero() {
                    ledger.push_str(&format!("2023/12/31 funding\n    Assets:Src  {} CHF\n    Equity:Opening\n\n", opening));
                }
                ledger.push_str(&text);
                match run_process(&ledger) {
                    Outcome::Panic(p) => viols.push(viol("panic", format!("book-keeping panicked on import output: {}", p))),
                    Outcome::Rej(rj) => viols.push(viol("imported_ledger_rejected", format!("okane's book-keeping rejects the imported ledger ({} {}):\n{}\n{}", rj.class, rj.kind, rj.text, ledger))),
                    Outcome::Ok(acc) => {
                        let got = acc.bal.get("Assets:Src").and_then(|m| m.get("CHF")).copied().unwrap_or(Decimal::ZERO);
                        if got != closing {
                            viols.push(viol("closing_balance", format!("the account ends at {} CHF, the statement closes at {}\n{}", got, closing, ledger)));
                        }
                    }
                }
            }
        }
        let _ = std::fs::remove_dir_all(&dir);
    }
    let mut classes = vec![rec["order"].as_str().unwrap().to_string()];
    if rec["entries"].as_array().unwrap().iter().any(|e| !e["details"].as_array().unwrap().is_empty()) { classes.push("batch".into()); }
    json!({"ok": viols.is_empty(), "viol": viols, "classes": classes, "observed": Value::Null,
           "files": if viols.is_empty() { Value::Null } else { json!({"xml": xml}) }})
}
