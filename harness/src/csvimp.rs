//! C16: CSV import.  Configurations and statements come from spec/ImportCsv.tla; this
//! module writes the YAML configuration and the CSV file, runs okane::import::import +
//! to_double_entry and compares the transactions; then `okane import`'s output is fed to
//! okane's own book-keeping, which must accept it and end at the last running balance.
use crate::ledger::{run_process, Outcome};
use crate::runner::{guarded, viol};
use crate::synproj;
use okane::import::{self, config, Format};
use rust_decimal::Decimal;
use serde_json::{json, Value};
use std::path::PathBuf;

pub fn dec_opt(v: &Value) -> Option<Decimal> {
    let s = v["s"].as_i64().unwrap();
    if s < 0 { None } else { Some(Decimal::new(v["m"].as_i64().unwrap(), s as u32)) }
}

/// prints with two decimals at least and thousands separators (as banks do)
pub fn bank_number(d: Decimal) -> String {
    let mut d = d;
    if d.scale() < 2 { d.rescale(2); }
    let s = d.abs().to_string();
    let (ip, fp) = s.split_once('.').unwrap_or((&s, ""));
    let mut grouped = String::new();
    for (i, ch) in ip.chars().enumerate() {
        if i > 0 && (ip.len() - i) % 3 == 0 { grouped.push(','); }
        grouped.push(ch);
    }
    format!("{}{}{}{}", if d.is_sign_negative() && !d.is_zero() { "-" } else { "" }, grouped, if fp.is_empty() { "" } else { "." }, fp)
}

fn cell(s: &str, delim: char) -> String {
    if s.contains(delim) || s.contains('"') { format!("\"{}\"", s.replace('"', "\"\"")) } else { s.to_string() }
}

pub struct Built { pub yaml: String, pub csv: String }

pub fn build(rec: &Value) -> Built {
    let cfg = &rec["cfg"];
    let delim = cfg["delim"].as_str().unwrap().chars().next().unwrap();
    let rows = rec["file_rows"].as_array().unwrap();
    let n = rows.len();
    let conv = cfg["conv"].as_str().unwrap();
    let has_conv = conv != "none";
    let creditdebit = cfg["cols"] == "creditdebit";
    let layout = cfg["layout"].as_str().unwrap();
    let with_balance = cfg["balance"] == true;
    // columns: (label, field key)
    let mut cols: Vec<(&str, &str)> = vec![("Date", "date"), ("Text", if layout == "template" { "category" } else { "payee" })];
    if creditdebit { cols.push(("Credit", "credit")); cols.push(("Debit", "debit")); } else { cols.push(("Amount", "amount")); }
    if with_balance { cols.push(("Balance", "balance")); }
    if has_conv { cols.push(("Rate", "rate")); cols.push(("Counter value", "secondary_amount")); cols.push(("Counter currency", "secondary_commodity")); }
    let with_cmdt = cfg["cmdtcol"] == true;
    if with_cmdt { cols.push(("Currency", "commodity")); }
    let with_charge = cfg["charge"] == "column";
    if with_charge { cols.push(("Fees & Comm", "charge")); }
    cols.push(("Memo", "note"));
    let mut yaml = format!("path: stmt.csv\nencoding: UTF-8\naccount: \"Assets:Src\"\naccount_type: {}\n", cfg["atype"].as_str().unwrap());
    if with_charge { yaml.push_str("operator: The Bank\n"); }
    match conv {
        "none" => yaml.push_str("commodity: USD\n"),
        "disabled" => yaml.push_str("commodity:\n  primary: USD\n  conversion:\n    disabled: true\n"),
        _ => yaml.push_str(&format!("commodity:\n  primary: USD\n  conversion:\n    amount: {}\n    rate: {}\n",
            if conv.starts_with("extract") { "extract" } else { "compute" }, if conv.ends_with("pop") { "price_of_primary" } else { "price_of_secondary" })),
    }
    yaml.push_str(&format!("format:\n  date: \"{}\"\n", cfg["datefmt"].as_str().unwrap()));
    if delim != ',' { yaml.push_str(&format!("  delimiter: \"{}\"\n", delim)); }
    let skip = cfg["skip"].as_i64().unwrap();
    if skip > 0 { yaml.push_str(&format!("  skip:\n    head: {}\n", skip)); }
    if cfg["order"] == "new_to_old" { yaml.push_str("  row_order: new_to_old\n"); }
    yaml.push_str("  fields:\n");
    for (i, (label, key)) in cols.iter().enumerate() {
        if layout == "index" { yaml.push_str(&format!("    {}: {}\n", key, i + 1)); } else { yaml.push_str(&format!("    {}: \"{}\"\n", key, label)); }
    }
    if layout == "template" { yaml.push_str("    payee:\n      template: \"{category}\"\n"); }
    if cfg["ruleconv"] == "disabled" {
        yaml.push_str("rewrite:\n  - matcher:\n      payee: \".*\"\n    conversion:\n      disabled: true\n");
    }
    if cfg["ruleconv"] == "commodity" {
        // the rule restates the conversion and names the secondary commodity; the statement's column shows the bank's own code
        yaml.push_str(&format!("rewrite:\n  - matcher:\n      payee: \".*\"\n    conversion:\n      commodity: JPY\n      amount: {}\n      rate: {}\n",
            if conv.starts_with("extract") { "extract" } else { "compute" }, if conv.ends_with("pop") { "price_of_primary" } else { "price_of_secondary" }));
    }
    let mut csv = String::new();
    for h in rec["head"].as_array().unwrap() { csv.push_str(h.as_str().unwrap()); csv.push('\n'); }
    csv.push_str(&cols.iter().map(|(l, _)| cell(l, delim)).collect::<Vec<_>>().join(&delim.to_string()));
    csv.push('\n');
    let running = rec["running"].as_array().unwrap();
    let new_to_old = cfg["order"] == "new_to_old";
    for (k, row) in rows.iter().enumerate() {
        let day = row["day"].as_i64().unwrap();
        let date = if cfg["datefmt"] == "%Y-%m-%d" { format!("2024-01-{:02}", day) } else { format!("{:02}.01.2024", day) };
        let booked = dec_opt(&row["amt"]).unwrap();
        let mut cells: Vec<String> = vec![date, row["payee"].as_str().unwrap().to_string()];
        if creditdebit {
            cells.push(if booked.is_sign_positive() { bank_number(booked) } else { String::new() });
            cells.push(if booked.is_sign_negative() { bank_number(booked.abs()) } else { String::new() });
        } else {
            cells.push(bank_number(dec_opt(&rec["shown"][k]).unwrap()));
        }
        if with_balance {
            let chrono_idx = if new_to_old { n - 1 - k } else { k };
            cells.push(bank_number(dec_opt(&running[chrono_idx]).unwrap()));
        }
        if has_conv {
            match dec_opt(&row["rate"]["r"]) {
                Some(r) => { cells.push(r.normalize().to_string()); cells.push(bank_number(dec_opt(&row["sec"]).unwrap())); cells.push("EUR".to_string()); }
                None => { cells.push(String::new()); cells.push(String::new()); cells.push(String::new()); }
            }
        }
        if with_cmdt { cells.push(row["cmdt"].as_str().unwrap().to_string()); }
        if with_charge {
            cells.push(match dec_opt(&row["chg"]) { Some(c) => bank_number(c), None => String::new() });
        }
        cells.push(row["note"].as_str().unwrap().to_string());
        csv.push_str(&cells.iter().map(|c| cell(c, delim)).collect::<Vec<_>>().join(&delim.to_string()));
        csv.push('\n');
    }
    Built { yaml, csv }
}

fn num_of(v: &Value) -> Option<(Decimal, String)> {
    // value-expr projection -> (value, commodity), literal amounts only
    let v = crate::syntax::normal(v);
    if v["t"] != "amt" { return None; }
    let n = &v["a"]["n"];
    let m: i128 = n["m"].as_str().unwrap().parse().unwrap_or(0);
    let mut d = Decimal::from_i128_with_scale(m, n["s"].as_u64().unwrap() as u32);
    if n["neg"] == true { d = -d; }
    Some((d, v["a"]["c"].as_str().unwrap().to_string()))
}

pub fn compare_tree(got: &[Value], rec: &Value, viols: &mut Vec<Value>) {
    let want = rec["expect"].as_array().unwrap();
    if got.len() != want.len() {
        viols.push(viol("record_count", format!("{} transactions for {} rows", got.len(), want.len())));
        return;
    }
    for (k, (g, w)) in got.iter().zip(want.iter()).enumerate() {
        let date = format!("2024-01-{:02}", w["day"].as_i64().unwrap());
        if g["date"] != date.as_str() {
            viols.push(viol("row_order_or_date", format!("transaction {} is dated {}, rows oldest first give {}", k + 1, g["date"], date)));
            return;
        }
        if g["payee"] != w["payee"] {
            viols.push(viol("payee", format!("transaction {}: payee {} vs {}", k + 1, g["payee"], w["payee"])));
        }
        let gp = g["posts"].as_array().unwrap();
        let wp = w["posts"].as_array().unwrap();
        if gp.len() != wp.len() {
            viols.push(viol("posting_count", format!("transaction {}: {} postings, expected {}", k + 1, gp.len(), wp.len())));
            continue;
        }
        for (i, (a, b)) in gp.iter().zip(wp.iter()).enumerate() {
            let want_amt = dec_opt(&b["amt"]).unwrap();
            let is_src = b["account"] == "Assets:Src";
            if b["account"] == "Expenses:Commissions" {
                if a["account"] != "Expenses:Commissions" {
                    viols.push(viol("charge_posting", format!("transaction {} posting {}: account {}, the charge posting (Expenses:Commissions) comes between the account and the counter posting", k + 1, i + 1, a["account"])));
                    break;
                }
                let payee_ok = a["metadata"].as_array().map(|ms| ms.iter().any(|m| m["k"] == "kv" && m["key"] == "Payee" && m["value"].to_string().contains(b["payee"].as_str().unwrap()))).unwrap_or(false);
                if !payee_ok {
                    viols.push(viol("charge_payee", format!("transaction {} posting {}: the charge posting does not name the operator {} as its payee: {}", k + 1, i + 1, b["payee"], a["metadata"])));
                }
            }
            if (a["account"] == "Assets:Src") != is_src {
                viols.push(viol("posting_order", format!("transaction {} posting {}: account {}, by the sign of the amount the {} posting comes here", k + 1, i + 1, a["account"], if is_src { "account" } else { "counter" })));
                break;
            }
            match num_of(&a["amount"]) {
                Some((v, c)) => {
                    if v != want_amt || c != b["c"].as_str().unwrap() {
                        viols.push(viol(if is_src { "account_amount" } else { "counter_amount" }, format!("transaction {} posting {} ({}): {} {}, the row gives {} {}", k + 1, i + 1, a["account"], v, c, want_amt, b["c"])));
                    }
                }
                None => viols.push(viol("amount_shape", format!("transaction {} posting {}: amount is not a literal: {}", k + 1, i + 1, a["amount"]))),
            }
            let want_cost = dec_opt(&b["cost"]["v"]);
            let got_cost = if a["cost"].is_null() { None } else { num_of(&a["cost"]["v"]) };
            match (want_cost, got_cost) {
                (None, None) => {}
                (Some(r), Some((v, c))) if a["cost"]["k"] == "rate" && v == r && c == b["cost"]["c"].as_str().unwrap() => {}
                (w2, g2) => viols.push(viol("rate_placement", format!("transaction {} posting {} ({} {}): cost {:?}, the rate belongs here as {:?} {}", k + 1, i + 1, a["account"], b["c"], g2, w2, b["cost"]["c"]))),
            }
            let want_bal = dec_opt(&b["balance"]);
            let got_bal = if a["balance"].is_null() { None } else { num_of(&a["balance"]) };
            match (want_bal, got_bal) {
                (None, None) => {}
                (Some(x), Some((v, c))) if v == x && c == b["c"].as_str().unwrap() => {}
                (w2, g2) => viols.push(viol("balance_assertion", format!("transaction {} posting {}: assertion {:?}, the balance column gives {:?}", k + 1, i + 1, g2, w2))),
            }
        }
        let note = w["note"].as_str().unwrap();
        let comments: Vec<&str> = g["metadata"].as_array().unwrap().iter().filter(|m| m["k"] == "comment").map(|m| m["v"].as_str().unwrap()).collect();
        if (note.is_empty() && !comments.is_empty()) || (!note.is_empty() && comments != vec![note]) {
            viols.push(viol("note", format!("transaction {}: comments {:?}, the note column has {:?}", k + 1, comments, note)));
        }
    }
}

pub fn replay(idx: usize, rec: &Value, workdir: &str) -> Value {
    let b = build(rec);
    let mut viols = Vec::new();
    let (yaml, csv) = (b.yaml.clone(), b.csv.clone());
    let r = guarded(move || -> Result<Vec<Value>, String> {
        let set = config::load_from_yaml(yaml.as_bytes()).map_err(|e| format!("config: {}", e))?;
        let entry = set.select(std::path::Path::new("/data/stmt.csv")).map_err(|e| format!("select: {}", e))?.ok_or("no config selected")?;
        let txns = import::import(csv.as_bytes(), Format::Csv, &entry).map_err(|e| format!("import: {}", e))?;
        let mut out = Vec::new();
        for t in &txns {
            let d = t.to_double_entry("Assets:Src").map_err(|e| format!("to_double_entry: {}", e))?;
            out.push(synproj::entry(&okane_core::syntax::LedgerEntry::Txn(d)));
        }
        Ok(out)
    });
    match r {
        Err(p) => viols.push(viol("panic", format!("import panicked: {}", p))),
        Ok(Err(e)) => viols.push(viol("import_failed", e)),
        Ok(Ok(tree)) => compare_tree(&tree, rec, &mut viols),
    }
    // composition with okane's own book-keeping
    if viols.is_empty() {
        let dir = PathBuf::from(workdir).join(format!("csv{}_{}", std::process::id(), idx));
        let _ = std::fs::remove_dir_all(&dir);
        std::fs::create_dir_all(&dir).unwrap();
        let (cp, sp) = (dir.join("config.yml"), dir.join("stmt.csv"));
        std::fs::write(&cp, &b.yaml).unwrap();
        std::fs::write(&sp, &b.csv).unwrap();
        let args = vec!["import".to_string(), "-c".to_string(), cp.to_string_lossy().to_string(), sp.to_string_lossy().to_string()];
        match guarded(|| crate::report::cli(&args)) {
            Err(p) => viols.push(viol("panic", format!("`okane import` panicked: {}", p))),
            Ok(Err(e)) => viols.push(viol("import_failed", format!("`okane import` failed: {}", e))),
            Ok(Ok(text)) => {
                let opening = dec_opt(&rec["opening"]).unwrap();
                let mut ledger = String::new();
                if !opening.is_zero() {
                    ledger.push_str(&format!("2023/12/31 opening\n    Assets:Src  {} USD\n    Equity:Opening\n\n", opening));
                }
                ledger.push_str(&text);
                let asset = rec["cfg"]["atype"] == "asset";
                match run_process(&ledger) {
                    Outcome::Panic(p) => viols.push(viol("panic", format!("book-keeping panicked on import output: {}", p))),
                    Outcome::Rej(rj) => viols.push(viol("imported_ledger_rejected", format!("okane's book-keeping rejects the imported ledger ({} {}):\n{}\n{}", rj.class, rj.kind, rj.text, ledger))),
                    Outcome::Ok(acc) => {
                        if asset {
                            // the account ends, in every commodity, at the statement's last balance in that commodity
                            for (c, v) in rec["final"].as_object().unwrap() {
                                let last = dec_opt(v).unwrap();
                                let got = acc.bal.get("Assets:Src").and_then(|m| m.get(c.as_str())).copied().unwrap_or(Decimal::ZERO);
                                if got != last {
                                    viols.push(viol("final_balance", format!("the account ends at {} {}, the statement's last balance in that commodity is {}\n{}", got, c, last, ledger)));
                                }
                            }
                        }
                    }
                }
            }
        }
        let _ = std::fs::remove_dir_all(&dir);
    }
    let cfg = &rec["cfg"];
    let classes = vec![format!("conv_{}", cfg["conv"].as_str().unwrap()), format!("ruleconv_{}", cfg["ruleconv"].as_str().unwrap()), format!("{}_{}", cfg["atype"].as_str().unwrap(), cfg["cols"].as_str().unwrap()),
                       format!("layout_{}", cfg["layout"].as_str().unwrap()), cfg["order"].as_str().unwrap().to_string(), format!("cmdtcol_{}", cfg["cmdtcol"])];
    json!({"ok": viols.is_empty(), "viol": viols, "classes": classes, "observed": Value::Null,
           "files": if viols.is_empty() { Value::Null } else { json!({"yaml": b.yaml, "csv": b.csv}) }})
}
